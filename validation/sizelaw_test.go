package connectconformance

// Bounded validation of an ASSUMED contract (not a proof): the protobuf size law used for C19,
//   proto.Size(m with request_data of n bytes) == base(m) + (n == 0 ? 0 : 1 + varintLen(n) + n),
// is compared with the real proto.Size for the request message types, with and without other
// fields set, for n around every varint length boundary. Injected with `go test -overlay`.

import (
	"testing"

	conformancev1 "connectrpc.com/conformance/internal/gen/proto/go/connectrpc/conformance/v1"
	"google.golang.org/protobuf/proto"
)

func verifVarintLen(n int) int {
	switch {
	case n < 128:
		return 1
	case n < 16384:
		return 2
	case n < 2097152:
		return 3
	case n < 268435456:
		return 4
	}
	return 5
}

func TestVerifSizeLaw(t *testing.T) {
	def := &conformancev1.UnaryResponseDefinition{ResponseHeaders: []*conformancev1.Header{{Name: "x", Value: []string{"y"}}}}
	sdef := &conformancev1.StreamResponseDefinition{ResponseDelayMs: 7}
	mk := []func(pad []byte) proto.Message{
		func(p []byte) proto.Message { return &conformancev1.UnaryRequest{RequestData: p} },
		func(p []byte) proto.Message { return &conformancev1.UnaryRequest{RequestData: p, ResponseDefinition: def} },
		func(p []byte) proto.Message { return &conformancev1.IdempotentUnaryRequest{RequestData: p, ResponseDefinition: def} },
		func(p []byte) proto.Message { return &conformancev1.ClientStreamRequest{RequestData: p, ResponseDefinition: def} },
		func(p []byte) proto.Message { return &conformancev1.ServerStreamRequest{RequestData: p, ResponseDefinition: sdef} },
		func(p []byte) proto.Message { return &conformancev1.BidiStreamRequest{RequestData: p, ResponseDefinition: sdef, FullDuplex: true} },
	}
	var lens []int
	for _, b := range []int{0, 128, 16384, 2097152} {
		for d := -3; d <= 3; d++ {
			if b+d >= 0 {
				lens = append(lens, b+d)
			}
		}
	}
	lens = append(lens, 1000, 204800, 300000)
	checked := 0
	for ti, f := range mk {
		base := proto.Size(f(nil))
		for _, n := range lens {
			want := base
			if n > 0 {
				want += 1 + verifVarintLen(n) + n
			}
			if got := proto.Size(f(make([]byte, n))); got != want {
				t.Errorf("size law violated: type #%d, padding %d: proto.Size=%d, law=%d", ti, n, got, want)
			}
			checked++
		}
	}
	t.Logf("size law agreed with proto.Size on %d (type, padding length) pairs", checked)
}
