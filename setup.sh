#!/bin/sh
# Builds the verifier offline from /verif/engine (golang.org/x/tools v0.29.0 from the module cache).
export GOFLAGS=-mod=mod GOPROXY=off GOSUMDB=off GOTOOLCHAIN=local
cd "$(dirname "$0")/engine" || exit 2
mkdir -p ../bin
go build -o ../bin/govc . || exit 1
echo "built /verif/bin/govc"
