package main

import (
	"bytes"
	"context"
	"fmt"
	"os"
	"os/exec"
	"path/filepath"
	"strings"
	"sync"
	"time"
)

type solverSpec struct {
	name string
	args func(timeoutS int, file string, seed int) []string
}

var ematch = solverSpec{"z3-new/ematch", func(t int, f string, seed int) []string {
	return []string{"z3-new", fmt.Sprintf("-T:%d", t), "smt.mbqi=false", fmt.Sprintf("smt.random_seed=%d", seed), f}
}}

var solvers = []solverSpec{
	{"z3-new", func(t int, f string, seed int) []string {
		return []string{"z3-new", fmt.Sprintf("-T:%d", t), fmt.Sprintf("smt.random_seed=%d", seed), fmt.Sprintf("sat.random_seed=%d", seed), f}
	}},
	{"z3/ematch", func(t int, f string, seed int) []string {
		return []string{"z3", fmt.Sprintf("-T:%d", t), "smt.mbqi=false", fmt.Sprintf("smt.random_seed=%d", seed), f}
	}},
	{"z3", func(t int, f string, seed int) []string {
		return []string{"z3", fmt.Sprintf("-T:%d", t), fmt.Sprintf("smt.random_seed=%d", seed), f}
	}},
	{"cvc5", func(t int, f string, seed int) []string {
		return []string{"cvc5", fmt.Sprintf("--tlimit=%d", t*1000), fmt.Sprintf("--seed=%d", seed), "--full-saturate-quant", f}
	}},
}

type solveResult struct {
	status string // unsat, sat, unknown, timeout, error
	solver string
	time   float64
	output string
}

func runSolver(ctx context.Context, s solverSpec, file string, timeoutS int, seed int) solveResult {
	args := s.args(timeoutS, file, seed)
	cctx, cancel := context.WithTimeout(ctx, time.Duration(timeoutS+2)*time.Second)
	defer cancel()
	cmd := exec.CommandContext(cctx, args[0], args[1:]...)
	var out bytes.Buffer
	cmd.Stdout = &out
	cmd.Stderr = &out
	t0 := time.Now()
	_ = cmd.Run()
	el := time.Since(t0).Seconds()
	txt := out.String()
	first := strings.TrimSpace(strings.SplitN(txt, "\n", 2)[0])
	st := "error"
	switch {
	case first == "unsat":
		st = "unsat"
	case first == "sat":
		st = "sat"
	case first == "unknown":
		st = "unknown"
	case strings.Contains(first, "timeout") || cctx.Err() != nil:
		st = "timeout"
	}
	return solveResult{status: st, solver: s.name, time: el, output: txt}
}

// discharge tries to prove one obligation: script must be unsat.
func discharge(script string, dir string, name string, timeoutS int, seed int, stage1Only bool) solveResult {
	file := filepath.Join(dir, sanitize(name)+".smt2")
	if len(file) > 200 {
		file = file[:200] + ".smt2"
	}
	if err := os.WriteFile(file, []byte(script), 0o644); err != nil {
		return solveResult{status: "error", output: err.Error()}
	}
	// stage 1: z3-new with E-matching only (no MBQI): proves or gives up quickly
	r := runSolver(context.Background(), ematch, file, timeoutS, seed)
	if r.status == "unsat" {
		return r
	}
	if stage1Only {
		if r.status != "sat" && r.status != "unsat" {
			r2 := runSolver(context.Background(), solvers[0], file, timeoutS, seed)
			if r2.status == "sat" || r2.status == "unsat" {
				return r2
			}
		}
		return r
	}
	first := r
	// stage 2: race all solvers with the full budget
	ctx, cancel := context.WithCancel(context.Background())
	defer cancel()
	ch := make(chan solveResult, len(solvers))
	var wg sync.WaitGroup
	for _, s := range solvers {
		wg.Add(1)
		go func(s solverSpec) {
			defer wg.Done()
			f := file
			if s.name == "cvc5" {
				// cvc5 needs a logic and produce-models before it
				f = strings.TrimSuffix(file, ".smt2") + ".cvc5.smt2"
				os.WriteFile(f, []byte("(set-logic ALL)\n"+script), 0o644)
			}
			ch <- runSolver(ctx, s, f, timeoutS, seed)
		}(s)
	}
	go func() { wg.Wait(); close(ch) }()
	best := first
	for res := range ch {
		if res.status == "unsat" {
			cancel()
			return res
		}
		if res.status == "sat" && best.status != "sat" {
			out := first.output
			best = res
			if first.status != "sat" {
				best.output = res.output + "\n;; candidate from " + first.solver + ":\n" + out
			}
		}
	}
	return best
}
