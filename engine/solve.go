package main

import (
	"bytes"
	"context"
	"fmt"
	"hash/fnv"
	"os"
	"os/exec"
	"path/filepath"
	"strings"
	"sync"
	"time"
)

type solverSpec struct {
	name string
	args func(timeoutS int, file string, seed int) []string
}

var ematch = solverSpec{"z3-new/ematch", func(t int, f string, seed int) []string {
	return []string{"z3-new", fmt.Sprintf("-T:%d", t), "smt.mbqi=false", fmt.Sprintf("smt.random_seed=%d", seed), f}
}}

var solvers = []solverSpec{
	{"z3-new", func(t int, f string, seed int) []string {
		return []string{"z3-new", fmt.Sprintf("-T:%d", t), fmt.Sprintf("smt.random_seed=%d", seed), fmt.Sprintf("sat.random_seed=%d", seed), f}
	}},
	{"z3/ematch", func(t int, f string, seed int) []string {
		return []string{"z3", fmt.Sprintf("-T:%d", t), "smt.mbqi=false", fmt.Sprintf("smt.random_seed=%d", seed), f}
	}},
	{"z3", func(t int, f string, seed int) []string {
		return []string{"z3", fmt.Sprintf("-T:%d", t), fmt.Sprintf("smt.random_seed=%d", seed), f}
	}},
	{"cvc5", func(t int, f string, seed int) []string {
		return []string{"cvc5", fmt.Sprintf("--tlimit=%d", t*1000), fmt.Sprintf("--seed=%d", seed), "--full-saturate-quant", f}
	}},
}

type solveResult struct {
	status string // unsat, sat, unknown, timeout, error
	solver string
	time   float64
	output string
}

// procSem bounds the number of solver processes running at any time, so that
// wall-clock limits measure solver time and not scheduling delay.
var procSem = make(chan struct{}, 14)

func runSolver(ctx context.Context, s solverSpec, file string, timeoutS int, seed int) solveResult {
	select {
	case procSem <- struct{}{}:
		defer func() { <-procSem }()
	case <-ctx.Done():
		return solveResult{status: "cancelled", solver: s.name}
	}
	args := s.args(timeoutS, file, seed)
	cctx, cancel := context.WithTimeout(ctx, time.Duration(timeoutS+2)*time.Second)
	defer cancel()
	cmd := exec.CommandContext(cctx, args[0], args[1:]...)
	var out bytes.Buffer
	cmd.Stdout = &out
	cmd.Stderr = &out
	t0 := time.Now()
	_ = cmd.Run()
	el := time.Since(t0).Seconds()
	txt := out.String()
	first := strings.TrimSpace(strings.SplitN(txt, "\n", 2)[0])
	st := "error"
	switch {
	case first == "unsat":
		st = "unsat"
	case first == "sat":
		st = "sat"
	case first == "unknown":
		st = "unknown"
	case strings.Contains(first, "timeout") || cctx.Err() != nil:
		st = "timeout"
	}
	return solveResult{status: st, solver: s.name, time: el, output: txt}
}

// discharge tries to prove one obligation: script must be unsat.
// lightScript drops the recursive spec-function block and every assertion that
// mentions a spec function: a weakening of the hypotheses, so "unsat" is still a proof.
func lightScript(script string) (string, bool) {
	if !strings.Contains(script, "spec!") {
		return "", false
	}
	var b strings.Builder
	skip := false
	depth := 0
	for _, ln := range strings.Split(script, "\n") {
		if strings.HasPrefix(ln, "(define-funs-rec") {
			skip = true
			depth = 0
		}
		if skip {
			depth += strings.Count(ln, "(") - strings.Count(ln, ")")
			if depth <= 0 {
				skip = false
			}
			continue
		}
		if strings.Contains(ln, "spec!") {
			if strings.HasPrefix(ln, "(assert (not ") && !strings.Contains(ln, "; axiom") {
				// the negated goal itself needs spec functions: no light version
				if strings.HasPrefix(ln, "(assert (not") {
					return "", false
				}
			}
			continue
		}
		b.WriteString(ln)
		b.WriteString("\n")
	}
	return b.String(), true
}

// recaxScript replaces the define-funs-rec block by uninterpreted functions with triggered
// unfolding axioms (the ";;recax" lines emitted next to the block). The hypotheses are
// equivalent; the solvers' handling differs (z3's recursive-function engine diverges on some
// goals that E-matching on the unfolding axiom decides at once).
func recaxScript(script string) (string, bool) {
	if !strings.Contains(script, ";;recax ") {
		return "", false
	}
	// names of the recursive spec functions (they get a fuel argument)
	var recs []string
	altLemma := map[string]bool{}
	for _, ln := range strings.Split(script, "\n") {
		if strings.HasPrefix(ln, ";;recax-rec ") {
			recs = append(recs, strings.TrimSpace(strings.TrimPrefix(ln, ";;recax-rec ")))
		}
		if strings.HasPrefix(ln, ";;recax-lemma ") {
			if i := strings.LastIndex(ln, "; lemma "); i >= 0 {
				altLemma[ln[i:]] = true
			}
		}
	}
	withFuel := func(ln, fuel string) string {
		for _, f := range recs {
			ln = strings.ReplaceAll(ln, "("+f+" ", "("+f+" "+fuel+" ")
		}
		return ln
	}
	const top = "(FS (FS FZ))"
	var b strings.Builder
	skip := false
	depth := 0
	fuelDeclared := false
	for _, ln := range strings.Split(script, "\n") {
		if strings.HasPrefix(ln, "(define-funs-rec") {
			skip = true
			depth = 0
		}
		if skip {
			depth += strings.Count(ln, "(") - strings.Count(ln, ")")
			if depth <= 0 {
				skip = false
			}
			continue
		}
		if !strings.HasPrefix(ln, ";;") {
			if i := strings.LastIndex(ln, "; lemma "); i >= 0 && altLemma[ln[i:]] {
				continue // replaced by the variant with an explicit trigger
			}
		}
		switch {
		case strings.HasPrefix(ln, ";;recax-lemma "):
			ln = withFuel(strings.TrimPrefix(ln, ";;recax-lemma "), top)
		case strings.HasPrefix(ln, ";;recax-rec "):
			if !fuelDeclared {
				b.WriteString("(declare-datatypes ((Fuel 0)) (((FZ) (FS (fpred Fuel)))))\n")
				fuelDeclared = true
			}
			continue
		case strings.HasPrefix(ln, ";;recax-body "):
			// head: fuel (FS fu!) (already written); recursive calls in the body: fuel fu!
			ln = strings.TrimPrefix(ln, ";;recax-body ")
			for _, f := range recs {
				// protect the two occurrences of the head, give every other call the lower fuel
				ln = strings.ReplaceAll(ln, "("+f+" (FS fu!) ", "(\x00"+f+" (FS fu!) ")
				ln = strings.ReplaceAll(ln, "("+f+" ", "("+f+" fu! ")
				ln = strings.ReplaceAll(ln, "(\x00"+f+" ", "("+f+" ")
			}
		case strings.HasPrefix(ln, ";;recax-syn "):
			ln = strings.TrimPrefix(ln, ";;recax-syn ")
		case strings.HasPrefix(ln, ";;recax (declare-fun "):
			ln = strings.TrimPrefix(ln, ";;recax ")
		case strings.HasPrefix(ln, ";;recax "):
			ln = withFuel(strings.TrimPrefix(ln, ";;recax "), top)
		default:
			ln = withFuel(ln, top)
		}
		b.WriteString(ln)
		b.WriteString("\n")
	}
	return b.String(), true
}

func discharge(script string, dir string, name string, timeoutS int, seed int, stage1Only bool) solveResult {
	file := filepath.Join(dir, shortName(name, 90)+".smt2")
	if err := os.WriteFile(file, []byte(script), 0o644); err != nil {
		return solveResult{status: "error", output: err.Error()}
	}
	if stage1Only {
		r := runSolver(context.Background(), ematch, file, timeoutS, seed)
		if r.status != "sat" && r.status != "unsat" {
			r2 := runSolver(context.Background(), solvers[0], file, timeoutS, seed)
			if r2.status == "sat" || r2.status == "unsat" {
				return r2
			}
		}
		return r
	}
	// stage 0: hypotheses without spec functions (enough for most safety obligations)
	if light, ok := lightScript(script); ok {
		lf := strings.TrimSuffix(file, ".smt2") + ".light.smt2"
		os.WriteFile(lf, []byte(light), 0o644)
		r := runSolver(context.Background(), ematch, lf, min(timeoutS, 2), seed)
		if r.status == "unsat" {
			r.solver += "(light)"
			return r
		}
	}
	// stage 1: race all back ends with the full budget; first "unsat" wins
	ctx, cancel := context.WithCancel(context.Background())
	defer cancel()
	all := append([]solverSpec{ematch}, solvers...)
	ch := make(chan solveResult, len(all)+2)
	var wg sync.WaitGroup
	if rx, ok := recaxScript(script); ok {
		f := strings.TrimSuffix(file, ".smt2") + ".recax.smt2"
		os.WriteFile(f, []byte(rx), 0o644)
		// two runs with different random seeds: E-matching on these scripts is sensitive to the
		// seed (the same goal can take 1 s or more than a minute)
		for k, sd := range []int{seed, seed + 7919} {
			wg.Add(1)
			go func(k, sd int) {
				defer wg.Done()
				r := runSolver(ctx, ematch, f, timeoutS, sd)
				r.solver += "(recax)"
				if k > 0 {
					r.solver += "(seed2)"
				}
				if r.status != "unsat" {
					r.status = "timeout" // only a refutation counts from this variant
				}
				ch <- r
			}(k, sd)
		}
	}
	for _, s := range all {
		wg.Add(1)
		go func(s solverSpec) {
			defer wg.Done()
			f := file
			if s.name == "cvc5" {
				f = strings.TrimSuffix(file, ".smt2") + ".cvc5.smt2"
				os.WriteFile(f, []byte("(set-logic ALL)\n"+script), 0o644)
			}
			ch <- runSolver(ctx, s, f, timeoutS, seed)
		}(s)
	}
	go func() { wg.Wait(); close(ch) }()
	var best solveResult
	best.status = "timeout"
	for res := range ch {
		if res.status == "unsat" {
			cancel()
			return res
		}
		if res.status == "sat" && best.status != "sat" {
			best = res
		} else if best.status != "sat" && res.status == "unknown" && strings.Contains(res.output, "define-fun") {
			best = res // unknown with a candidate model
		}
	}
	return best
}

// shortName gives a file-system friendly name of bounded length (with a hash suffix when cut).
func shortName(name string, max int) string {
	s := sanitize(name)
	if len(s) <= max {
		return s
	}
	h := fnv.New32a()
	h.Write([]byte(name))
	return fmt.Sprintf("%s_%08x", s[:max], h.Sum32())
}
