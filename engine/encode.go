package main

import (
	"sync"
	"fmt"
	"go/constant"
	"go/token"
	"go/types"
	"math/big"
	"os"
	"path"
	"regexp"
	"sort"
	"strconv"
	"strings"

	"golang.org/x/tools/go/ssa"
)

// ---------------------------------------------------------------------------
// Values

type pathSel struct {
	si    *StructInfo
	field int
}

type Loc struct {
	Comp *Comp
	Idx  []string // index terms into the component (ref) or (base, index)
	Path []pathSel
	Typ  types.Type // type of the value stored at this location
	// NilBase is the term that must be non-nil for an access to be safe ("" = always safe)
	NilBase string
}

type Val struct {
	T   string
	Typ types.Type
	Loc *Loc
	Tup []Val
}

type Obl struct {
	Name    string
	Kind    string
	Fn      string
	At      int // number of items to include
	Reach   string
	Goal    string
	Pos     token.Pos
	Detail  string
	PosStr  string
	NonGate bool
	// results
	Status string // proved, failed, unknown
	Solver string
	Time   float64
	Wall   float64
	Model  string
	Script string
	// ResTerms: SMT terms of the results at the return a postcondition is checked at (replay)
	ResTerms []string
}

type bstate struct {
	reach string
	heap  map[string]string
}

type loopInfo struct {
	entryHeap map[string]string // heap on the (single) entry edge
	header    *ssa.BasicBlock
	body      map[*ssa.BasicBlock]bool
	backs     []*ssa.BasicBlock
	ordinal   int
}

type nameDef struct {
	val    ssa.Value
	block  *ssa.BasicBlock
	idx    int
	isAddr bool
}

type retSite struct {
	reach   string
	results []Val
	heap    map[string]string
}

// frame is one function body being encoded (top-level or inlined).
type frame struct {
	fn       *ssa.Function
	inlined  bool
	rets     []retSite
	loops    map[*ssa.BasicBlock]*loopInfo
	out      map[*ssa.BasicBlock]*bstate
	edge     map[[2]int]string
	defs     map[string][]nameDef
	params   map[string]Val
	heap0    map[string]string // heap at entry of this frame
	prefix   string
	defers   []*ssa.Defer
	retCount int
}

type Enc struct {
	P           *Program
	W           *World
	fn          *ssa.Function
	C           *Contract
	items       []string
	obls        []*Obl
	vals        map[ssa.Value]Val
	nfresh      int
	dry         bool
	writes      map[*ssa.BasicBlock]map[string]bool // from the dry run: comps written per block ("*" = all)
	curWrite    map[string]bool
	notes       map[string]bool
	unmod       map[string]bool
	externs     map[string]bool
	inlines     map[string]bool
	oblCount    map[string]int
	depth       int
	inlineStack map[*ssa.Function]bool
	ranges      map[*ssa.Range]*rangeModel
	curIterHeap string
	curHeap     map[string]string
	curLemma    string
	curCallArgs []ssa.Value
	assertDone  map[*AssertAt]bool
	snaps       map[string]SVal // snapshot_at values by name
	canaries    []*Obl
	curInstr    ssa.Instruction   // instruction of the verified function being encoded (not of inlined callees)
	lockHeap    map[string]string // heap right after the first Lock in the function body
	lockHeaps   []map[string]string
	lockInstrs  []ssa.Instruction
	curBindings []Val             // bindings of the closure whose contract is being applied
	spawning    bool              // the contract is applied for a go statement
	protected   map[*loopInfo][]*ssa.Range
	lemmasUsed  map[string]bool
	top         *frame
	specDone    map[string]bool
	specSigs    map[string]*specSig
	opts        map[string]string
	errors      []string
	entryAlloc  string
}

func (e *Enc) fresh(prefix, sort string) string {
	e.nfresh++
	n := fmt.Sprintf("%s!%d", sanitize(prefix), e.nfresh)
	e.items = append(e.items, fmt.Sprintf("(declare-const %s %s)", n, sort))
	return n
}

func (e *Enc) assert(f string) {
	if f == "true" || f == "" {
		return
	}
	e.items = append(e.items, "(assert "+f+")")
}

func (e *Enc) assume(reach, f string) {
	e.assert(sImp(reach, f))
}

func (e *Enc) note(s string) { e.notes[s] = true }

func (e *Enc) oblige(st *bstate, kind, anchor, goal string, pos token.Pos) *Obl {
	if goal == "true" {
		return nil
	}
	base := fmt.Sprintf("%s/%s/%s", fnDisplay(e.fn), kind, anchor)
	e.oblCount[base]++
	name := fmt.Sprintf("%s#%d", base, e.oblCount[base])
	o := &Obl{Name: name, Kind: kind, Fn: fnDisplay(e.fn), At: len(e.items), Reach: st.reach, Goal: goal, Pos: pos, PosStr: e.P.posString(pos)}
	e.obls = append(e.obls, o)
	// later obligations may assume this one
	e.assume(st.reach, goal)
	return o
}

// canary records a program point whose path condition must stay satisfiable together with
// everything assumed up to it (assumed contracts, invariants, axioms): if "false" can be
// derived there, every obligation downstream is proved vacuously.
func (e *Enc) canary(st *bstate, label string) {
	if e.dry || e.depth > 0 {
		return
	}
	e.canaries = append(e.canaries, &Obl{Name: fnDisplay(e.fn) + "/canary/" + label, Kind: "canary", Fn: fnDisplay(e.fn), At: len(e.items), Reach: st.reach, Goal: "false"})
}

func fnDisplay(f *ssa.Function) string {
	if f == nil {
		return "lemma"
	}
	pkg := funcPkg(f)
	if pkg == nil {
		return f.String()
	}
	return pkg.Name() + "." + f.RelString(pkg)
}

func (e *Enc) anchor(pos token.Pos, fallback string) string {
	s := e.P.srcLine(pos)
	if s == "" {
		return fallback
	}
	s = strings.Join(strings.Fields(s), " ")
	if len(s) > 70 {
		s = s[:70]
	}
	return s
}

// ---------------------------------------------------------------------------
// Heap access

func (e *Enc) heapVar(st *bstate, c *Comp) string {
	if v, ok := st.heap[c.Name]; ok {
		return v
	}
	// component first seen now: it has had its entry version on every path so far
	v := c.Name + "@0"
	st.heap[c.Name] = v
	return v
}

func (e *Enc) newHeapVersion(st *bstate, c *Comp) string {
	e.nfresh++
	n := fmt.Sprintf("%s@%d", c.Name, e.nfresh)
	e.items = append(e.items, fmt.Sprintf("(declare-const %s %s)", n, c.Sort))
	st.heap[c.Name] = n
	if e.curWrite != nil {
		e.curWrite[c.Name] = true
	}
	// every heap state is well-typed: sized integers stay within their range, slices are well-formed
	for _, ax := range heapTypeAxioms(e.W, c, n) {
		e.items = append(e.items, ax)
	}
	return n
}

func selN(arr string, idx []string) string {
	t := arr
	for _, i := range idx {
		t = app("select", t, i)
	}
	return t
}

func storeN(arr string, idx []string, v string) string {
	if len(idx) == 0 {
		return v
	}
	if len(idx) == 1 {
		return app("store", arr, idx[0], v)
	}
	return app("store", arr, idx[0], storeN(app("select", arr, idx[0]), idx[1:], v))
}

func (e *Enc) loadLoc(st *bstate, l *Loc) string {
	t := selN(e.heapVar(st, l.Comp), l.Idx)
	for _, p := range l.Path {
		t = app(p.si.Fields[p.field], t)
	}
	return t
}

func (e *Enc) updPath(cur string, path []pathSel, v string) string {
	if len(path) == 0 {
		return v
	}
	p := path[0]
	var fs []string
	for i := range p.si.Fields {
		f := app(p.si.Fields[i], cur)
		if i == p.field {
			f = e.updPath(f, path[1:], v)
		}
		fs = append(fs, f)
	}
	return e.W.mkStruct(p.si, fs)
}

func (e *Enc) storeLoc(st *bstate, l *Loc, v string) {
	old := e.heapVar(st, l.Comp)
	nv := v
	if len(l.Path) > 0 {
		nv = e.updPath(selN(old, l.Idx), l.Path, v)
	}
	e.frameCheck(st, l.Comp, l.Idx, token.NoPos)
	n := e.newHeapVersion(st, l.Comp)
	e.assume(st.reach, sEq(n, storeN(old, l.Idx, nv)))
}

// frameCheck: a write to a component outside the declared frame must hit an
// object allocated by this function.
func (e *Enc) frameCheck(st *bstate, c *Comp, idx []string, pos token.Pos) {
	if e.C == nil || !e.C.HasMod || e.depth > 0 && false {
		return
	}
	if c.Kind == "alloc" || c.Kind == "iter" || len(idx) == 0 {
		return
	}
	if e.inFrame(c) {
		return
	}
	e.W.needRoot()
	e.oblige(st, "frame", c.Name, app(">", app("root", idx[0]), e.entryAlloc), pos)
}

func (w *World) needRoot() {
	w.declare("root", "(declare-fun root (Int) Int)\n(assert (forall ((r Int)) (! (=> (>= r 0) (= (root r) r)) :pattern ((root r)))))")
}

func (e *Enc) inFrame(c *Comp) bool {
	if e.C == nil || !e.C.HasMod {
		return true
	}
	for _, m := range e.frameComps(e.C, e.fn) {
		if m == c.Name {
			return true
		}
	}
	return false
}

// frameComps resolves the modifies clause of a contract to component names.
func (e *Enc) frameComps(c *Contract, f *ssa.Function) []string {
	var out []string
	for _, m := range c.Modifies {
		if strings.HasPrefix(m, "onlyfresh(") {
			continue
		}
		if i := strings.Index(m, "@"); i >= 0 {
			m = strings.TrimSpace(m[:i]) // own frame: component granularity
		}
		out = append(out, e.resolveCompSpec(m, c.Pkg)...)
	}
	return out
}

func (e *Enc) resolveCompSpec(m string, pkgPath string) []string {
	pkg := e.P.tpkgs[pkgPath]
	if g, ok := e.P.reg.Ghosts[m]; ok {
		return []string{e.ghostComp(g).Name}
	}
	if strings.HasPrefix(m, "ghosts:") {
		// "ghosts:<glob>": every declared ghost whose name matches, e.g. ghosts:*Src
		var names, out []string
		for n := range e.P.reg.Ghosts {
			if ok, _ := path.Match(m[len("ghosts:"):], n); ok {
				names = append(names, n)
			}
		}
		sort.Strings(names)
		for _, n := range names {
			g := e.P.reg.Ghosts[n]
			if e.P.tpkgs[g.Pkg] == nil && g.Pkg != "" {
				continue // declared for a package that is not part of this program
			}
			out = append(out, e.ghostComp(g).Name)
		}
		return out
	}
	if (strings.HasPrefix(m, "mapof(") || strings.HasPrefix(m, "elemsof(")) && strings.HasSuffix(m, ")") {
		// the map (slice element) components of the type of a struct field, for types that are
		// awkward to write in a comma-separated list: mapof(T.f), elemsof(T.f)
		inner := m[strings.Index(m, "(")+1 : len(m)-1]
		i := strings.LastIndex(inner, ".")
		if i > 0 {
			if t, err := e.evalType(inner[:i], pkg); err == nil {
				if si := e.W.structInfo(t); si != nil {
					if fi := fieldIndex(si.St, inner[i+1:]); fi >= 0 {
						ft := si.St.Field(fi).Type()
						if mt, ok := ft.Underlying().(*types.Map); ok && strings.HasPrefix(m, "mapof(") {
							d, v, l := e.W.mapComps(mt)
							return []string{d.Name, v.Name, l.Name}
						}
						if sl, ok := ft.Underlying().(*types.Slice); ok && strings.HasPrefix(m, "elemsof(") {
							return []string{e.W.elemComp(sl.Elem()).Name}
						}
					}
				}
			}
		}
		e.errors = append(e.errors, fmt.Sprintf("modifies %q: not a map/slice field", m))
		return nil
	}
	evalType := func(s string) types.Type {
		t, err := e.evalType(s, pkg)
		if err != nil {
			e.errors = append(e.errors, fmt.Sprintf("modifies %q: %v", m, err))
			return nil
		}
		return t
	}
	switch {
	case strings.HasPrefix(m, "[]"):
		if t := evalType(m[2:]); t != nil {
			return []string{e.W.elemComp(t).Name}
		}
	case strings.HasPrefix(m, "map["):
		if t := evalType(m); t != nil {
			d, v, l := e.W.mapComps(t.Underlying().(*types.Map))
			return []string{d.Name, v.Name, l.Name}
		}
	case strings.HasPrefix(m, "*"):
		if t := evalType(m[1:]); t != nil {
			return []string{e.W.cellComp(t).Name}
		}
	default:
		i := strings.LastIndex(m, ".")
		if i < 0 {
			e.errors = append(e.errors, fmt.Sprintf("modifies %q: unknown component", m))
			return nil
		}
		if t := evalType(m[:i]); t != nil {
			si := e.W.structInfo(t)
			if si == nil {
				e.errors = append(e.errors, fmt.Sprintf("modifies %q: not a struct", m))
				return nil
			}
			if m[i+1:] == "*" {
				// all fields, including those of structs embedded by value
				var out []string
				var rec func(t types.Type, depth int)
				rec = func(t types.Type, depth int) {
					sj := e.W.structInfo(t)
					if sj == nil || depth > 4 {
						return
					}
					for k := 0; k < sj.St.NumFields(); k++ {
						ft := sj.St.Field(k).Type()
						if e.W.structInfo(ft) != nil {
							rec(ft, depth+1)
							continue
						}
						out = append(out, e.W.fieldComp(sj.Type, k).Name)
					}
				}
				rec(t, 0)
				return out
			}
			for k := 0; k < si.St.NumFields(); k++ {
				if si.St.Field(k).Name() == m[i+1:] {
					return []string{e.W.fieldComp(si.Type, k).Name}
				}
			}
			e.errors = append(e.errors, fmt.Sprintf("modifies %q: no such field", m))
		}
	}
	return nil
}

// typesMu serialises go/types evaluation: types.Eval adds scopes to the shared package
// objects, and functions are verified concurrently.
var typesMu sync.Mutex

func (e *Enc) evalType(s string, pkg *types.Package) (types.Type, error) {
	typesMu.Lock()
	defer typesMu.Unlock()
	return e.evalTypeU(s, pkg)
}

func (e *Enc) evalTypeU(s string, pkg *types.Package) (types.Type, error) {
	s = strings.TrimSpace(s)
	switch s {
	case "ref":
		return types.Typ[types.UnsafePointer], nil
	}
	if pkg == nil && e.fn != nil {
		pkg = funcPkg(e.fn)
	}
	if pkg == nil {
		pkg = dummyPkg
	}
	// allow fully qualified "*path/to/pkg.Type" / "[]*path/to/pkg.Type"
	if strings.Contains(s, "/") && (strings.HasPrefix(s, "*") || strings.HasPrefix(s, "[]")) && !strings.Contains(s, "map[") {
		if strings.HasPrefix(s, "*") {
			if t, err := e.evalTypeU(s[1:], pkg); err == nil {
				return types.NewPointer(t), nil
			}
		} else if t, err := e.evalTypeU(s[2:], pkg); err == nil {
			return types.NewSlice(t), nil
		}
	}
	// allow fully qualified "path/to/pkg.Type"
	if i := strings.LastIndex(s, "/"); i >= 0 && !strings.HasPrefix(s, "[]") && !strings.HasPrefix(s, "*") && !strings.HasPrefix(s, "map[") {
		j := strings.LastIndex(s, ".")
		if j > i {
			if p := e.P.tpkgs[s[:j]]; p != nil {
				if o := p.Scope().Lookup(s[j+1:]); o != nil {
					return o.Type(), nil
				}
			}
			return nil, fmt.Errorf("cannot resolve type %q", s)
		}
	}
	tv, err := types.Eval(e.P.fset, pkg, token.NoPos, s)
	if err != nil {
		// retry in the file scopes of the package (imports are visible there)
		for _, f := range e.P.pkgFiles[pkg.Path()] {
			if tv2, err2 := types.Eval(e.P.fset, pkg, f.Name.End(), s); err2 == nil {
				return tv2.Type, nil
			}
		}
	}
	if err != nil {
		// try with imports of pkg visible by name: pkgname.Type
		if i := strings.Index(s, "."); i > 0 {
			pre := ""
			rest := s
			for strings.HasPrefix(rest, "*") || strings.HasPrefix(rest, "[]") {
				if rest[0] == '*' {
					pre += "*"
					rest = rest[1:]
				} else {
					pre += "[]"
					rest = rest[2:]
				}
			}
			if i := strings.Index(rest, "."); i > 0 {
				aliased := e.P.tpkgs[e.P.reg.PkgAlias[rest[:i]]]
				for _, p := range e.P.tpkgs {
					if (aliased == nil && p.Name() == rest[:i]) || (aliased != nil && p == aliased) {
						if o := p.Scope().Lookup(rest[i+1:]); o != nil {
							t := o.Type()
							for k := len(pre); k > 0; {
								if strings.HasSuffix(pre[:k], "[]") {
									t = types.NewSlice(t)
									k -= 2
								} else {
									t = types.NewPointer(t)
									k--
								}
							}
							return t, nil
						}
					}
				}
			}
		}
		// last resort: a type expression that mentions (possibly unexported) names of one other
		// package, e.g. map[string]*tracer.traceResult: evaluate it inside that package
		if m := regexp.MustCompile(`\b([A-Za-z_][A-Za-z0-9_]*)\.`).FindStringSubmatch(s); m != nil {
			var cands []*types.Package
			for _, p := range e.P.tpkgs {
				if p.Name() == m[1] {
					cands = append(cands, p)
				}
			}
			sort.Slice(cands, func(i, j int) bool { return cands[i].Path() < cands[j].Path() })
			for _, p := range cands {
				if tv2, err2 := types.Eval(e.P.fset, p, token.NoPos, strings.ReplaceAll(s, m[1]+".", "")); err2 == nil {
					return tv2.Type, nil
				}
			}
		}
		return nil, err
	}
	return tv.Type, nil
}

func (e *Enc) ghostComp(g *GhostDecl) *Comp {
	pkg := e.P.tpkgs[g.Pkg]
	ks := "Int"
	if kt, err := e.evalType(g.KeyType, pkg); err == nil {
		ks = e.W.sortOf(kt)
	} else {
		e.errors = append(e.errors, fmt.Sprintf("ghost %s: %v", g.Name, err))
	}
	vs := "Int"
	var vtyp types.Type
	if vt, err := e.evalType(g.ValType, pkg); err == nil {
		vs = e.W.sortOf(vt)
		vtyp = vt
	} else {
		e.errors = append(e.errors, fmt.Sprintf("ghost %s: %v", g.Name, err))
	}
	c := e.W.comp("G!"+g.Name, "(Array "+ks+" "+vs+")", "ghost")
	if vtyp != nil {
		c.ValTyp = vtyp
		c.KeySort = ks
	}
	return c
}

func (e *Enc) allocComp() *Comp { return e.W.comp("alloc", "Int", "alloc") }

// newRef allocates a fresh positive reference.
func (e *Enc) newRef(st *bstate, hint string) string {
	ac := e.allocComp()
	old := e.heapVar(st, ac)
	r := e.fresh("ref."+hint, "Int")
	e.assert(app(">", r, old))
	e.assert(app(">", r, "0"))
	n := e.newHeapVersion(st, ac)
	e.assert(sEq(n, r))
	return r
}

// zeroInit stores zero values into all fields of a freshly allocated struct.
func (e *Enc) zeroInitStruct(st *bstate, ref string, t types.Type) {
	si := e.W.structInfo(t)
	e.initGhosts(st, ref, t)
	for i := 0; i < si.St.NumFields(); i++ {
		ft := si.St.Field(i).Type()
		if e.W.structInfo(ft) != nil {
			e.zeroInitStruct(st, e.subRef(t, i, ref), ft)
			continue
		}
		c := e.W.fieldComp(si.Type, i)
		old := e.heapVar(st, c)
		n := e.newHeapVersion(st, c)
		e.assert(sEq(n, app("store", old, ref, e.W.zero(ft))))
	}
}

// subRef: the (derived) reference of a struct-typed field embedded by value in object ref.
func (e *Enc) subRef(t types.Type, field int, ref string) string {
	si := e.W.structInfo(t)
	name := "sub!" + strings.TrimPrefix(si.Sort, "S!") + "!" + sanitize(si.St.Field(field).Name())
	e.W.needRoot()
	// subkind: addresses of different embedded fields (different struct type or field) are different
	e.W.declare("subkind", "(declare-fun subkind (Int) Int)")
	e.W.declare(name, fmt.Sprintf("(declare-fun %s (Int) Int)\n(declare-fun %s.inv (Int) Int)\n"+
		"(assert (forall ((r Int)) (! (and (< (%s r) 0) (= (%s.inv (%s r)) r) (= (root (%s r)) (root r)) (= (subkind (%s r)) %d)) :pattern ((%s r)))))",
		name, name, name, name, name, name, name, e.W.subKindID(name), name))
	return app(name, ref)
}

// loadStruct builds the value of a struct stored at ref.
func (e *Enc) loadStruct(st *bstate, ref string, t types.Type) string {
	si := e.W.structInfo(t)
	var fs []string
	for i := 0; i < si.St.NumFields(); i++ {
		ft := si.St.Field(i).Type()
		if e.W.structInfo(ft) != nil {
			fs = append(fs, e.loadStruct(st, e.subRef(t, i, ref), ft))
			continue
		}
		fs = append(fs, app("select", e.heapVar(st, e.W.fieldComp(si.Type, i)), ref))
	}
	return e.W.mkStruct(si, fs)
}

func (e *Enc) storeStruct(st *bstate, ref string, t types.Type, v string) {
	si := e.W.structInfo(t)
	for i := 0; i < si.St.NumFields(); i++ {
		ft := si.St.Field(i).Type()
		fv := app(si.Fields[i], v)
		if e.W.structInfo(ft) != nil {
			e.storeStruct(st, e.subRef(t, i, ref), ft, fv)
			continue
		}
		c := e.W.fieldComp(si.Type, i)
		e.frameCheck(st, c, []string{ref}, token.NoPos)
		old := e.heapVar(st, c)
		n := e.newHeapVersion(st, c)
		e.assume(st.reach, sEq(n, app("store", old, ref, fv)))
	}
}

// havocAll gives every known component a fresh version.
func (e *Enc) havocAll(st *bstate, why string) {
	if e.curWrite != nil {
		e.curWrite["*"] = true
	}
	keep := map[string]bool{}
	if (why == "select" || why == "recv") && e.C != nil && len(e.C.Unshared) > 0 {
		for _, m := range e.frameComps(&Contract{Modifies: e.C.Unshared, HasMod: true}, e.fn) {
			keep[m] = true
		}
		e.note("unshared (assumed): " + strings.Join(e.C.Unshared, ", ") + " not written by other goroutines at synchronisation points")
	}
	for _, n := range append([]string(nil), e.W.compOrder...) {
		c := e.W.comps[n]
		if c.Kind == "global-ext" || keep[n] {
			continue // package-level variables of dependencies (sentinel errors etc.) are treated as constants
		}
		if c.Kind == "alloc" {
			old := e.heapVar(st, c)
			nv := e.newHeapVersion(st, c)
			e.assert(app(">=", nv, old))
			continue
		}
		e.newHeapVersion(st, c)
	}
}

// ---------------------------------------------------------------------------
// Type invariants

var intRanges = map[types.BasicKind][2]string{
	types.Int8:    {"(- 128)", "127"},
	types.Int16:   {"(- 32768)", "32767"},
	types.Int32:   {"(- 2147483648)", "2147483647"},
	types.Int64:   {"(- 9223372036854775808)", "9223372036854775807"},
	types.Int:     {"(- 9223372036854775808)", "9223372036854775807"},
	types.Uint8:   {"0", "255"},
	types.Uint16:  {"0", "65535"},
	types.Uint32:  {"0", "4294967295"},
	types.Uint64:  {"0", "18446744073709551615"},
	types.Uint:    {"0", "18446744073709551615"},
	types.Uintptr: {"0", "18446744073709551615"},
}

func intRange(t types.Type) (lo, hi string, ok bool) {
	if t == nil {
		return "", "", false
	}
	b, isB := types.Unalias(t).Underlying().(*types.Basic)
	if !isB {
		return "", "", false
	}
	r, ok := intRanges[b.Kind()]
	return r[0], r[1], ok
}

func intBits(t types.Type) (bits int, signed bool, ok bool) {
	b, isB := types.Unalias(t).Underlying().(*types.Basic)
	if !isB || b.Info()&types.IsInteger == 0 {
		return 0, false, false
	}
	switch b.Kind() {
	case types.Int8:
		return 8, true, true
	case types.Int16:
		return 16, true, true
	case types.Int32:
		return 32, true, true
	case types.Int64, types.Int:
		return 64, true, true
	case types.Uint8:
		return 8, false, true
	case types.Uint16:
		return 16, false, true
	case types.Uint32:
		return 32, false, true
	case types.Uint64, types.Uint, types.Uintptr:
		return 64, false, true
	}
	return 0, false, false
}

// typeInv returns a formula that holds of every well-typed value of type t.
func (e *Enc) typeInv(term string, t types.Type) string {
	if t == nil {
		return "true"
	}
	if lo, hi, ok := intRange(t); ok {
		return sAnd(app("<=", lo, term), app("<=", term, hi))
	}
	switch e.W.sortOf(t) {
	case "Slice":
		return app("wfslice", term)
	case "Str":
		// the length of a string value of the program fits an int (a resource fact about Go
		// strings; abstract strings of the specification language are not bounded - a global
		// bound would contradict the concatenation and conversion axioms)
		return app("<=", app("slen", term), "9223372036854775807")
	}
	switch types.Unalias(t).Underlying().(type) {
	case *types.Map, *types.Chan:
		return app(">=", term, "0") // only sub-objects embedded by value have negative references
	}
	if si := e.W.structInfo(t); si != nil {
		var cs []string
		for i := 0; i < si.St.NumFields(); i++ {
			cs = append(cs, e.typeInv(app(si.Fields[i], term), si.St.Field(i).Type()))
		}
		return sAnd(cs...)
	}
	return "true"
}

func (e *Enc) assumeType(v Val) {
	if v.Loc != nil || v.Tup != nil {
		for _, x := range v.Tup {
			e.assumeType(x)
		}
		return
	}
	e.assert(e.typeInv(v.T, v.Typ))
}

// ---------------------------------------------------------------------------
// SSA values

func (e *Enc) constVal(c *ssa.Const) Val {
	t := c.Type()
	if c.Value == nil {
		return Val{T: e.W.zero(t), Typ: t}
	}
	switch c.Value.Kind() {
	case constant.Bool:
		if constant.BoolVal(c.Value) {
			return Val{T: "true", Typ: t}
		}
		return Val{T: "false", Typ: t}
	case constant.String:
		return Val{T: e.W.strLit(constant.StringVal(c.Value)), Typ: t}
	case constant.Int:
		if b, ok := types.Unalias(t).Underlying().(*types.Basic); ok && b.Info()&types.IsFloat != 0 {
			return Val{T: c.Value.ExactString() + ".0", Typ: t}
		}
		n, _ := new(big.Int).SetString(c.Value.ExactString(), 10)
		return Val{T: bigLit(n), Typ: t}
	case constant.Float:
		f, _ := constant.Float64Val(c.Value)
		s := fmt.Sprintf("%f", f)
		if f < 0 {
			s = fmt.Sprintf("(- %f)", -f)
		}
		return Val{T: s, Typ: t}
	}
	return Val{T: e.fresh("const", e.W.sortOf(t)), Typ: t}
}

func (e *Enc) val(v ssa.Value) Val {
	switch x := v.(type) {
	case *ssa.Const:
		return e.constVal(x)
	case *ssa.Global:
		pt := x.Type().(*types.Pointer).Elem()
		name := "GV!" + sanitize(x.Pkg.Pkg.Name()+"."+x.Name())
		c := e.W.comp(name, e.W.sortOf(pt), globalKind(x.Pkg.Pkg))
		return Val{Typ: x.Type(), Loc: &Loc{Comp: c, Typ: pt}}
	case *ssa.Function:
		n := "fn!" + sanitize(x.String())
		e.W.declare(n, fmt.Sprintf("(declare-const %s Int)\n(assert (> %s 0))", n, n))
		return Val{T: n, Typ: x.Type()}
	case *ssa.Builtin:
		return Val{T: "0", Typ: x.Type()}
	}
	if r, ok := e.vals[v]; ok {
		return r
	}
	// value not yet defined (e.g. unreachable block or unsupported); give it a fresh symbol
	r := Val{T: e.fresh("undef."+v.Name(), e.W.sortOf(v.Type())), Typ: v.Type()}
	e.vals[v] = r
	return r
}

// term returns the SMT term of a non-location value.
func (e *Enc) term(st *bstate, v ssa.Value) string {
	x := e.val(v)
	if x.Loc != nil {
		// address used as a value: opaque
		e.note("address-of-field/element escapes as value: " + v.String())
		return e.locAsRef(x.Loc)
	}
	return x.T
}

func (e *Enc) locAsRef(l *Loc) string {
	name := "addr!" + l.Comp.Name
	n := len(l.Idx)
	if n == 0 {
		e.W.declare(name, fmt.Sprintf("(declare-const %s Int)\n(assert (< %s 0))", name, name))
		return name
	}
	args := strings.Repeat("Int ", n)
	e.W.declare(name, fmt.Sprintf("(declare-fun %s (%s) Int)", name, strings.TrimSpace(args)))
	t := app(name, l.Idx...)
	for _, p := range l.Path {
		fn := "addr!path!" + sanitize(p.si.Fields[p.field])
		e.W.declare(fn, fmt.Sprintf("(declare-fun %s (Int) Int)", fn))
		t = app(fn, t)
	}
	return t
}

// ---------------------------------------------------------------------------
// Loops and ordering

func (fr *frame) computeLoops() {
	fn := fr.fn
	fr.loops = map[*ssa.BasicBlock]*loopInfo{}
	for _, b := range fn.Blocks {
		for _, s := range b.Succs {
			if s.Dominates(b) { // back edge b -> s
				li := fr.loops[s]
				if li == nil {
					li = &loopInfo{header: s, body: map[*ssa.BasicBlock]bool{s: true}}
					fr.loops[s] = li
				}
				li.backs = append(li.backs, b)
				// natural loop body
				stack := []*ssa.BasicBlock{b}
				for len(stack) > 0 {
					x := stack[len(stack)-1]
					stack = stack[:len(stack)-1]
					if li.body[x] {
						continue
					}
					li.body[x] = true
					stack = append(stack, x.Preds...)
				}
			}
		}
	}
	var hs []*ssa.BasicBlock
	for h := range fr.loops {
		hs = append(hs, h)
	}
	sort.Slice(hs, func(i, j int) bool {
		pi, pj := loopPos(hs[i]), loopPos(hs[j])
		if pi != pj {
			return pi < pj
		}
		return hs[i].Index < hs[j].Index // same position (e.g. nested range loops): outer (earlier block) first
	})
	for i, h := range hs {
		fr.loops[h].ordinal = i
	}
}

func loopPos(b *ssa.BasicBlock) int {
	best := int(^uint(0) >> 1)
	for _, in := range b.Instrs {
		if p := in.Pos(); p.IsValid() && int(p) < best {
			best = int(p)
		}
	}
	if best == int(^uint(0)>>1) {
		// fall back on successors' first position
		for _, s := range b.Succs {
			for _, in := range s.Instrs {
				if p := in.Pos(); p.IsValid() && int(p) < best {
					best = int(p)
				}
			}
		}
	}
	return best*1000 + b.Index
}

func isBackEdge(from, to *ssa.BasicBlock) bool { return to.Dominates(from) }

func topoOrder(fn *ssa.Function) []*ssa.BasicBlock {
	seen := map[*ssa.BasicBlock]bool{}
	var post []*ssa.BasicBlock
	var dfs func(b *ssa.BasicBlock)
	dfs = func(b *ssa.BasicBlock) {
		seen[b] = true
		for _, s := range b.Succs {
			if !seen[s] && !isBackEdge(b, s) {
				dfs(s)
			}
		}
		post = append(post, b)
	}
	dfs(fn.Blocks[0])
	if fn.Recover != nil && !seen[fn.Recover] {
		// recover block unreachable in our model
	}
	for i, j := 0, len(post)-1; i < j; i, j = i+1, j-1 {
		post[i], post[j] = post[j], post[i]
	}
	return post
}

func copyHeap(h map[string]string) map[string]string {
	n := make(map[string]string, len(h))
	for k, v := range h {
		n[k] = v
	}
	return n
}

func (fr *frame) collectDefs() {
	fr.defs = map[string][]nameDef{}
	for _, b := range fr.fn.Blocks {
		for i, in := range b.Instrs {
			if d, ok := in.(*ssa.DebugRef); ok {
				if obj, ok := d.Object().(*types.Var); ok && obj != nil {
					fr.defs[obj.Name()] = append(fr.defs[obj.Name()], nameDef{val: d.X, block: b, idx: i, isAddr: d.IsAddr})
				}
			}
		}
	}
}

// lookupName resolves a source-level variable name at a program point.
func (fr *frame) lookupName(name string, b *ssa.BasicBlock, idx int) (ssa.Value, bool, bool) {
	// rangeindex<N>: the hidden index of the range loop with ordinal N (an enclosing loop)
	if strings.HasPrefix(name, "rangeindex") && len(name) > len("rangeindex") {
		if n, err := strconv.Atoi(name[len("rangeindex"):]); err == nil {
			for h, li := range fr.loops {
				if li.ordinal != n || !(h == b || h.Dominates(b)) {
					continue
				}
				for _, in := range h.Instrs {
					if p, ok := in.(*ssa.Phi); ok {
						if p.Comment == "rangeindex" {
							return p, false, true
						}
					} else {
						break
					}
				}
			}
			return nil, false, false
		}
	}
	cands := fr.defs[name]
	if os.Getenv("VERIF_DEBUG") == "3" {
		for _, c := range cands {
			fmt.Fprintf(os.Stderr, "DEBUG cand %s: %s in b%d idx %d\n", name, c.val.Name(), c.block.Index, c.idx)
		}
	}
	for blk := b; blk != nil; blk = blk.Idom() {
		limit := len(blk.Instrs)
		if blk == b {
			limit = idx
		}
		var best *nameDef
		for i := range cands {
			c := &cands[i]
			if c.block == blk && c.idx < limit {
				if best == nil || c.idx > best.idx {
					best = c
				}
			}
		}
		if best != nil {
			if _, isConst := best.val.(*ssa.Const); isConst {
				// A constant recorded at the declaration may be stale (e.g. "x := map{}" records
				// nil before the make): prefer a later mention, inside the region dominated by
				// the query block, of a value that is already available at the query point.
				var alt *nameDef
				for i := range cands {
					c := &cands[i]
					if c.block == b && c.idx < idx {
						continue
					}
					if !(c.block == b || b.Dominates(c.block)) {
						continue
					}
					avail := false
					switch v := c.val.(type) {
					case *ssa.Phi:
						avail = v.Block() == b || v.Block().Dominates(b)
					case *ssa.Parameter, *ssa.FreeVar:
						avail = true
					case *ssa.Const:
						avail = false
					case ssa.Instruction:
						avail = v.Block() != b && v.Block().Dominates(b) || (v.Block() == b && instrIndex(v) < idx)
					}
					if avail && (alt == nil || c.block.Index < alt.block.Index || (c.block == alt.block && c.idx < alt.idx)) {
						alt = c
					}
				}
				if alt != nil {
					return alt.val, alt.isAddr, true
				}
			}
			return best.val, best.isAddr, true
		}
		if blk == b {
			// a later mention in the same block of a value already available here (phi of this block,
			// or defined in a strictly dominating block)
			for i := range cands {
				c := &cands[i]
				if c.block != blk || c.idx < limit {
					continue
				}
				avail := false
				switch v := c.val.(type) {
				case *ssa.Phi:
					avail = v.Block() == b || (v.Block() != b && v.Block().Dominates(b))
				case *ssa.Parameter, *ssa.FreeVar:
					avail = true
				case ssa.Instruction:
					avail = v.Block() != b && v.Block().Dominates(b)
				}
				if avail && (best == nil || c.idx < best.idx) {
					best = c
				}
			}
			if best != nil {
				return best.val, best.isAddr, true
			}
		}
		for _, in := range blk.Instrs {
			if p, ok := in.(*ssa.Phi); ok {
				if p.Comment == name {
					return p, false, true
				}
			} else {
				break
			}
		}
	}
	for _, p := range fr.fn.Params {
		if p.Name() == name {
			return p, false, true
		}
	}
	for _, p := range fr.fn.FreeVars {
		if p.Name() == name {
			_, isPtr := p.Type().(*types.Pointer)
			return p, isPtr, true
		}
	}
	return nil, false, false
}

// initGhosts: ghost components keyed by *T start at their zero value for a freshly
// allocated T (modelling convention: Go zero values are "empty": unlocked mutex,
// empty builder/buffer, zero atomic).
func (e *Enc) initGhosts(st *bstate, ref string, t types.Type) {
	var names []string
	for n := range e.P.reg.Ghosts {
		names = append(names, n)
	}
	sort.Strings(names)
	for _, n := range names {
		g := e.P.reg.Ghosts[n]
		if !strings.HasPrefix(g.KeyType, "*") || e.P.tpkgs[g.Pkg] == nil {
			continue
		}
		kt, err := e.evalType(g.KeyType[1:], e.P.tpkgs[g.Pkg])
		if err != nil || !types.Identical(kt, types.Unalias(t)) {
			continue
		}
		vt, err := e.evalType(g.ValType, e.P.tpkgs[g.Pkg])
		if err != nil {
			continue
		}
		c := e.ghostComp(g)
		old := e.heapVar(st, c)
		nv := e.newHeapVersion(st, c)
		e.assert(sEq(nv, app("store", old, ref, e.W.zero(vt))))
	}
}

func instrIndex(in ssa.Instruction) int {
	for i, x := range in.Block().Instrs {
		if x == in {
			return i
		}
	}
	return -1
}

var dummyPkg = types.NewPackage("verif/builtin", "builtin")

// globalKind: package-level variables of packages outside the module are modelled as
// constants (they are sentinel values such as io.EOF; nothing in the module assigns them).
func globalKind(p *types.Package) string {
	if p != nil && !strings.HasPrefix(p.Path(), modPath) {
		return "global-ext"
	}
	return "global"
}

// heapTypeAxioms: facts that hold of every well-typed heap, for version n of component c.
func heapTypeAxioms(w *World, c *Comp, n string) []string {
	if c.ValTyp == nil {
		return nil
	}
	var out []string
	if lo, hi, ok := intRange(c.ValTyp); ok {
		switch c.Kind {
		case "field", "cell":
			out = append(out, fmt.Sprintf("(assert (forall ((r Int)) (! (and (<= %s (select %s r)) (<= (select %s r) %s)) :pattern ((select %s r)))))", lo, n, n, hi, n))
		case "elems":
			out = append(out, fmt.Sprintf("(assert (forall ((r Int) (i Int)) (! (and (<= %s (select (select %s r) i)) (<= (select (select %s r) i) %s)) :pattern ((select (select %s r) i)))))", lo, n, n, hi, n))
		}
	} else if w.sortOf(c.ValTyp) == "Slice" {
		switch c.Kind {
		case "field", "cell":
			out = append(out, fmt.Sprintf("(assert (forall ((r Int)) (! (wfslice (select %s r)) :pattern ((select %s r)))))", n, n))
		case "elems":
			out = append(out, fmt.Sprintf("(assert (forall ((r Int) (i Int)) (! (wfslice (select (select %s r) i)) :pattern ((select (select %s r) i)))))", n, n))
		}
	}
	return out
}
