package main

import (
	"strconv"
	"fmt"
	"go/token"
	"go/types"
	"math/big"
	"os"
	"strings"

	"golang.org/x/tools/go/ssa"
)

// encodeFrame encodes all blocks of fr.fn starting in state st.
// For the top frame, returns are checked against the contract; for inlined
// frames they are recorded in fr.rets.
func (e *Enc) encodeFrame(fr *frame, st *bstate) {
	fn := fr.fn
	fr.computeLoops()
	fr.collectDefs()
	fr.out = map[*ssa.BasicBlock]*bstate{}
	fr.edge = map[[2]int]string{}
	order := topoOrder(fn)
	for _, b := range order {
		var cur *bstate
		if b == fn.Blocks[0] {
			cur = &bstate{reach: st.reach, heap: copyHeap(st.heap)}
		} else {
			cur = e.joinPreds(fr, b)
			if cur == nil {
				continue
			}
		}
		if e.dry {
			e.curWrite = map[string]bool{}
		}
		e.encodeBlock(fr, b, cur)
		if e.dry {
			if e.writes[b] == nil {
				e.writes[b] = map[string]bool{}
			}
			for k := range e.curWrite {
				e.writes[b][k] = true
			}
			e.curWrite = nil
		}
		fr.out[b] = cur
	}
}

type predEdge struct {
	from *ssa.BasicBlock
	cond string
	st   *bstate
}

func (e *Enc) predEdges(fr *frame, b *ssa.BasicBlock) []predEdge {
	var edges []predEdge
	for _, p := range b.Preds {
		if isBackEdge(p, b) {
			continue
		}
		ps := fr.out[p]
		if ps == nil {
			continue // unreachable predecessor
		}
		edges = append(edges, predEdge{from: p, cond: fr.edge[[2]int{p.Index, b.Index}], st: ps})
	}
	return edges
}

// joinPreds computes the entry state of block b from its forward predecessors,
// handles loop headers (invariant init + havoc) and phi nodes.
func (e *Enc) joinPreds(fr *frame, b *ssa.BasicBlock) *bstate {
	edges := e.predEdges(fr, b)
	if len(edges) == 0 {
		return nil
	}
	li := fr.loops[b]
	cur := &bstate{heap: map[string]string{}}
	// reach
	if len(edges) == 1 {
		cur.reach = edges[0].cond
	} else {
		var cs []string
		for _, ed := range edges {
			cs = append(cs, ed.cond)
		}
		r := e.fresh(fmt.Sprintf("reach.b%d", b.Index), "Bool")
		e.assert(sEq(r, sOr(cs...)))
		cur.reach = r
	}
	if li != nil {
		if len(edges) == 1 {
			li.entryHeap = copyHeap(edges[0].st.heap)
		} else {
			li.entryHeap = nil
		}
		// invariant must hold on every entry edge
		for _, ed := range edges {
			e.checkInvariant(fr, li, ed.from, &bstate{reach: ed.cond, heap: ed.st.heap}, "inv-init")
		}
	}
	// heap join
	names := map[string]bool{}
	for _, ed := range edges {
		for k := range ed.st.heap {
			names[k] = true
		}
	}
	var modified map[string]bool
	if li != nil {
		modified = e.loopWrites(li)
	}
	for _, n := range e.W.compOrder {
		if !names[n] {
			continue
		}
		c := e.W.comps[n]
		if li != nil && (modified["*"] || modified[n]) {
			// havoc at loop head
			old := edges[0].st.heap[n]
			nv := e.newHeapVersion(cur, c)
			if c.Kind == "alloc" && len(edges) == 1 && old != "" {
				e.assert(app(">=", nv, old))
			}
			if c.Kind == "alloc" {
				e.assert(app(">=", nv, e.entryAlloc))
			}
			// Components outside the declared frame are only ever written at objects
			// allocated by this function (a frame obligation at every such store), so at
			// any loop head they still agree with the entry heap on pre-existing objects.
			if !fr.inlined && e.C != nil && e.C.HasMod && !e.inFrame(c) && strings.HasPrefix(c.Sort, "(Array Int ") && c.Kind != "alloc" {
				e.W.needRoot()
				e.assert(fmt.Sprintf("(forall ((r Int)) (! (=> (<= (root r) %s) (= (select %s r) (select %s@0 r))) :pattern ((select %s r))))", e.entryAlloc, nv, c.Name, nv))
			}
			continue
		}
		same := true
		first := e.heapVar(edges[0].st, c)
		for _, ed := range edges[1:] {
			if e.heapVar(ed.st, c) != first {
				same = false
			}
		}
		if same {
			cur.heap[n] = first
			continue
		}
		nv := e.newHeapVersion(cur, c)
		if e.curWrite != nil {
			delete(e.curWrite, n)
		}
		for _, ed := range edges {
			e.assume(ed.cond, sEq(nv, e.heapVar(ed.st, c)))
		}
	}
	// phis
	for _, in := range b.Instrs {
		p, ok := in.(*ssa.Phi)
		if !ok {
			break
		}
		e.encodePhi(fr, p, b, edges, li != nil)
		if li != nil {
			// every live reference was allocated before now
			e.assumeAllocated(cur, e.vals[p])
		}
	}
	if li != nil {
		e.assumeInvariant(fr, li, cur)
	}
	return cur
}

func (e *Enc) loopWrites(li *loopInfo) map[string]bool {
	m := map[string]bool{}
	if e.dry {
		m["*"] = true
		return m
	}
	for b := range li.body {
		for k := range e.writes[b] {
			m[k] = true
		}
	}
	return m
}

func (e *Enc) encodePhi(fr *frame, p *ssa.Phi, b *ssa.BasicBlock, edges []predEdge, header bool) {
	srt := e.W.sortOf(p.Type())
	// location-valued phis are not supported: all incoming must be plain terms
	name := e.fresh("phi."+p.Name(), srt)
	v := Val{T: name, Typ: p.Type()}
	e.vals[p] = v
	e.assert(e.typeInv(name, p.Type()))
	if header {
		return // havocked; constrained by the invariant only (and allocatedness, see joinPreds)
	}
	for _, ed := range edges {
		for i, pr := range b.Preds {
			if pr == ed.from {
				ov := e.val(p.Edges[i])
				if ov.Loc != nil {
					e.note("phi over addresses: " + p.String())
					continue
				}
				e.assume(ed.cond, sEq(name, ov.T))
			}
		}
	}
}

// invariant handling -------------------------------------------------------

func (e *Enc) loopClauses(li *loopInfo) []*Clause {
	if e.C == nil {
		return nil
	}
	return e.C.Loops[li.ordinal]
}

// phiSubst maps header phis to their incoming values along a given edge.
func phiSubst(li *loopInfo, from *ssa.BasicBlock) map[ssa.Value]ssa.Value {
	m := map[ssa.Value]ssa.Value{}
	for _, in := range li.header.Instrs {
		p, ok := in.(*ssa.Phi)
		if !ok {
			break
		}
		for i, pr := range li.header.Preds {
			if pr == from {
				m[p] = p.Edges[i]
			}
		}
	}
	return m
}

func firstNonPhi(b *ssa.BasicBlock) int {
	for i, in := range b.Instrs {
		if _, ok := in.(*ssa.Phi); !ok {
			return i
		}
	}
	return len(b.Instrs)
}

func (e *Enc) invEnv(fr *frame, li *loopInfo, st *bstate, subst map[ssa.Value]ssa.Value) *SpecEnv {
	env := e.newSpecEnv(fr, st)
	env.block = li.header
	env.idx = firstNonPhi(li.header)
	env.subst = subst
	env.loop = li
	return env
}

// autoInvariants guesses bounds for simple counting loops (range loops and
// "for i := c; i < n; i++"). They are checked like any other invariant.
func (e *Enc) autoInvariants(fr *frame, li *loopInfo, subst map[ssa.Value]ssa.Value) []string {
	var out []string
	h := li.header
	for _, rng := range e.protected[li] {
		// the ranged map itself is not touched by the updates in this loop (range-stable obligations)
		if rm := e.ranges[rng]; rm != nil && rm.exact && e.curHeap != nil {
			d, vcomp, l := e.W.mapComps(rm.mt)
			get := func(c *Comp) string {
				if v, ok := e.curHeap[c.Name]; ok {
					return v
				}
				return c.Name + "@0"
			}
			if e.opt("rangedelete") && loopDeletes(li, rm.mt) && e.curIterHeap != "" {
				// visited keys may have been deleted; keys not yet reached are all still there
				ks := e.W.sortOf(rm.mt.Key())
				dom := app("select", get(d), rm.m)
				pos := app("select", e.curIterHeap, rm.it)
				out = append(out, sImp(sNot(sEq(rm.m, "0")), sAnd(
					fmt.Sprintf("(forall ((k %s)) (! (=> (select %s k) (select %s k)) :pattern ((select %s k))))", ks, dom, rm.dom0, dom),
					fmt.Sprintf("(forall ((k %s)) (! (=> (and (select %s k) (>= (%s %s k) %s)) (select %s k)) :pattern ((select %s k))))", ks, rm.dom0, rm.ri, rm.it, pos, dom, dom),
					sEq(app("select", get(vcomp), rm.m), rm.val0))))
			} else {
				out = append(out, sImp(sNot(sEq(rm.m, "0")), sAnd(sEq(app("select", get(d), rm.m), rm.dom0), sEq(app("select", get(vcomp), rm.m), rm.val0), sEq(app("select", get(l), rm.m), rm.len0))))
			}
		}
	}
	if rm := e.headerRange(li); rm != nil {
		// position of the map iterator stays within the enumeration
		hp := e.curIterHeap
		if hp != "" {
			pos := app("select", hp, rm.it)
			out = append(out, sAnd(app("<=", "0", pos), app("<=", pos, app(rm.rn, rm.it))))
		}
	}
	for _, in := range h.Instrs {
		p, ok := in.(*ssa.Phi)
		if !ok {
			break
		}
		if _, isSl := p.Type().Underlying().(*types.Slice); isSl {
			if e.localSlicePhi(li, p) {
				pv := p
				var t string
				if subst != nil {
					if r, ok := subst[pv]; ok {
						t = e.val(r).T
					}
				}
				if t == "" {
					t = e.val(p).T
				}
				e.W.needRoot()
				out = append(out, sOr(sEq(app("sbase", t), "0"), app(">", app("root", app("sbase", t)), e.entryAlloc)))
			}
			continue
		}
		if _, _, isInt := intBits(p.Type()); !isInt {
			continue
		}
		var init *int64
		var step ssa.Value
		okShape := true
		for i, pr := range h.Preds {
			if isBackEdge(pr, h) {
				if step != nil && step != p.Edges[i] {
					okShape = false
				}
				step = p.Edges[i]
			} else {
				c, isC := constInt(p.Edges[i])
				if !isC || (init != nil && *init != c) {
					okShape = false
				} else {
					init = &c
				}
			}
		}
		if !okShape || init == nil || step == nil {
			continue
		}
		bo, ok := step.(*ssa.BinOp)
		if !ok || bo.Op != token.ADD || bo.X != p {
			continue
		}
		if k, isC := constInt(bo.Y); !isC || k != 1 {
			continue
		}
		cur := func(v ssa.Value) string {
			if subst != nil {
				if r, ok := subst[v]; ok {
					v = r
				}
			}
			return e.val(v).T
		}
		pv := cur(p)
		out = append(out, app("<=", intLit(*init), pv))
		// upper bound from a guard "x < Y" with Y defined outside the loop
		outside := func(v ssa.Value) bool {
			switch y := v.(type) {
			case *ssa.Const, *ssa.Parameter, *ssa.FreeVar:
				return true
			case ssa.Instruction:
				return !li.body[y.Block()]
			}
			return false
		}
		guard := func(b *ssa.BasicBlock) (x, y ssa.Value, ok bool) {
			if len(b.Instrs) == 0 {
				return nil, nil, false
			}
			iff, isIf := b.Instrs[len(b.Instrs)-1].(*ssa.If)
			if !isIf {
				return nil, nil, false
			}
			c, isB := iff.Cond.(*ssa.BinOp)
			if !isB || c.Op != token.LSS || !li.body[b.Succs[0]] || li.body[b.Succs[1]] {
				return nil, nil, false
			}
			return c.X, c.Y, true
		}
		// shape A/C: guard in the header
		if x, y, ok := guard(h); ok && outside(y) {
			if x == step {
				out = append(out, sOr(app("<", pv, e.val(y).T), sEq(pv, intLit(*init))))
			} else if x == p {
				out = append(out, sOr(app("<=", pv, e.val(y).T), sEq(pv, intLit(*init))))
			}
			continue
		}
		// shape B: rotated loop, guard in the latch
		for _, lb := range li.backs {
			if x, y, ok := guard(lb); ok && outside(y) && x == step && b0(lb, h) {
				out = append(out, sOr(app("<", pv, e.val(y).T), sEq(pv, intLit(*init))))
				break
			}
		}
	}
	return out
}

func b0(latch, h *ssa.BasicBlock) bool { return latch.Succs[0] == h }

func (e *Enc) checkInvariant(fr *frame, li *loopInfo, from *ssa.BasicBlock, st *bstate, kind string) {
	cls := e.loopClauses(li)
	subst := phiSubst(li, from)
	e.curIterHeap = st.heap["IT!pos"]
	e.curHeap = st.heap
	for i, t := range e.autoInvariants(fr, li, subst) {
		o := e.oblige(st, kind, fmt.Sprintf("loop%d.auto%d", li.ordinal, i), t, li.header.Instrs[0].Pos())
		if o != nil {
			o.Detail = "automatic counting-loop bound"
		}
	}
	for i, cl := range cls {
		env := e.invEnv(fr, li, st, subst)
		t, err := env.formula(cl.Expr)
		if err != nil {
			e.errors = append(e.errors, fmt.Sprintf("%s: loop %d invariant: %v", cl.Src, li.ordinal, err))
			continue
		}
		label := cl.Label
		if label == "" {
			label = fmt.Sprintf("%d", i)
		}
		if os.Getenv("VERIF_DEBUG") != "" && !e.dry {
			fmt.Fprintf(os.Stderr, "DEBUG %s loop%d.%s: %s\n   => %s\n", kind, li.ordinal, label, cl.Text, t)
		}
		o := e.oblige(st, kind, fmt.Sprintf("loop%d.%s", li.ordinal, label), t, li.header.Instrs[0].Pos())
		if o != nil {
			o.Detail = cl.Text
		}
	}
}

func (e *Enc) assumeInvariant(fr *frame, li *loopInfo, st *bstate) {
	e.curIterHeap = st.heap["IT!pos"]
	e.curHeap = st.heap
	for _, t := range e.autoInvariants(fr, li, nil) {
		e.assume(st.reach, t)
	}
	for _, cl := range e.loopClauses(li) {
		env := e.invEnv(fr, li, st, nil)
		t, err := env.formula(cl.Expr)
		if err != nil {
			e.errors = append(e.errors, fmt.Sprintf("%s: loop %d invariant: %v", cl.Src, li.ordinal, err))
			continue
		}
		e.assume(st.reach, t)
	}
}

// ---------------------------------------------------------------------------

// assertsAt checks the in-body assertions attached to the source line of instruction in.
func (e *Enc) assertsAt(fr *frame, b *ssa.BasicBlock, idx int, in ssa.Instruction, st *bstate) {
	if e.C == nil || len(e.C.AssertsAt) == 0 || fr.inlined || !in.Pos().IsValid() {
		return
	}
	line := e.P.srcLine(in.Pos())
	for _, a := range e.C.AssertsAt {
		anchor := a.Anchor
		// an anchor may name the kind of statement it means: "binop:", "call:", "store:", "return:"
		if _, isUn := in.(*ssa.UnOp); isUn && !strings.HasPrefix(anchor, "unop:") {
			continue
		}
		for _, kd := range []string{"binop", "call", "store", "return", "mapupdate", "unop"} {
			if strings.HasPrefix(anchor, kd+":") {
				anchor = strings.TrimPrefix(anchor, kd+":")
				ok := false
				switch in.(type) {
				case *ssa.BinOp:
					ok = kd == "binop"
				case *ssa.Call:
					ok = kd == "call"
				case *ssa.Store:
					ok = kd == "store"
				case *ssa.Return:
					ok = kd == "return"
				case *ssa.MapUpdate:
					ok = kd == "mapupdate"
				case *ssa.UnOp:
					ok = kd == "unop"
				}
				if !ok {
					anchor = "\x00never"
				}
			}
		}
		if !strings.Contains(line, anchor) || (e.assertDone[a] && a.Nth >= 0) {
			continue
		}
		if a.Nth > 0 {
			// matching statements are counted by distinct source line, independent of block order
			lines := map[int]bool{}
			for _, bb := range fr.fn.Blocks {
				for _, ii := range bb.Instrs {
					switch ii.(type) {
					case *ssa.Return, *ssa.Call, *ssa.Store, *ssa.MapUpdate, *ssa.BinOp:
						if ii.Pos().IsValid() && strings.Contains(e.P.srcLine(ii.Pos()), a.Anchor) && e.P.fset.Position(ii.Pos()).Line < e.P.fset.Position(in.Pos()).Line {
							lines[e.P.fset.Position(ii.Pos()).Line] = true
						}
					}
				}
			}
			if len(lines)+1 != a.Nth {
				continue
			}
		}
		e.assertDone[a] = true
		env := e.newSpecEnv(fr, st)
		env.block, env.idx = b, idx
		var f string
		var err error
		if a.Snapshot == "" {
			f, err = env.formula(a.Clause.Expr)
			if err != nil {
				e.errors = append(e.errors, fmt.Sprintf("%s: assert_at: %v", a.Clause.Src, err))
				continue
			}
		}
		if a.Snapshot != "" {
			v, err := env.tr(a.Clause.Expr)
			if err != nil {
				e.errors = append(e.errors, fmt.Sprintf("%s: snapshot_at: %v", a.Clause.Src, err))
				continue
			}
			if e.snaps == nil {
				e.snaps = map[string]SVal{}
			}
			e.snaps[a.Snapshot] = v
			continue
		}
		if a.Assume {
			e.assume(st.reach, f)
			e.externs[fnDisplay(e.fn)+" (explicit assumption at \""+a.Anchor+"\": "+a.Clause.Text+")"] = true
			continue
		}
		o := e.oblige(st, "assert", e.anchor(in.Pos(), a.Anchor), f, in.Pos())
		if o != nil {
			o.Detail = a.Clause.Text
		}
	}
}

// thenReturns: a call anchored by a then_returns clause must be followed, in its block, only by
// the deferred calls and the return.
func (e *Enc) thenReturns(fr *frame, b *ssa.BasicBlock, idx int, in ssa.Instruction, st *bstate) {
	if e.C == nil || len(e.C.ThenReturns) == 0 || fr.inlined || !in.Pos().IsValid() {
		return
	}
	if _, ok := in.(*ssa.Call); !ok {
		return
	}
	line := e.P.srcLine(in.Pos())
	for _, a := range e.C.ThenReturns {
		if !strings.Contains(line, a) {
			continue
		}
		ok := false
		for _, nx := range b.Instrs[idx+1:] {
			switch y := nx.(type) {
			case *ssa.RunDefers, *ssa.DebugRef:
				continue
			case *ssa.Return:
				ok = true
			case *ssa.Call:
				// an argument evaluated on the same line (fmt.Errorf(...) inside the anchored call): the
				// obligation belongs to the last call of the line
				if y.Pos().IsValid() && strings.Contains(e.P.srcLine(y.Pos()), a) {
					ok = true
				}
			default:
				if v, isV := nx.(ssa.Value); isV {
					// pure value computations feeding that later call (allocation of the variadic slice, boxing)
					_ = v
					switch nx.(type) {
					case *ssa.Alloc, *ssa.MakeInterface, *ssa.IndexAddr, *ssa.Slice, *ssa.Store, *ssa.FieldAddr, *ssa.UnOp, *ssa.ChangeInterface:
						continue
					}
				}
			}
			break
		}
		if !ok {
			o := e.oblige(st, "order", fmt.Sprintf("return-after %s", e.anchor(in.Pos(), a)), "false", in.Pos())
			if o != nil {
				o.Detail = "the function must return right after this call"
			}
		}
	}
}

func (e *Enc) encodeBlock(fr *frame, b *ssa.BasicBlock, st *bstate) {
	for idx, in := range b.Instrs {
		if !fr.inlined {
			e.curInstr = in
		}
		switch in.(type) {
		case *ssa.Return, *ssa.Call, *ssa.Store, *ssa.MapUpdate, *ssa.BinOp:
			e.assertsAt(fr, b, idx, in, st)
			e.thenReturns(fr, b, idx, in, st)
		case *ssa.UnOp:
			e.assertsAt(fr, b, idx, in, st) // only anchors that ask for it ("unop:...") match a unary operation
		}
		switch x := in.(type) {
		case *ssa.Phi, *ssa.DebugRef:
			continue
		case *ssa.If:
			c := e.term(st, x.Cond)
			fr.edge[[2]int{b.Index, b.Succs[0].Index}] = sAnd(st.reach, c)
			fr.edge[[2]int{b.Index, b.Succs[1].Index}] = sAnd(st.reach, sNot(c))
			if b.Succs[0] == b.Succs[1] {
				fr.edge[[2]int{b.Index, b.Succs[0].Index}] = st.reach
			}
		case *ssa.Jump:
			fr.edge[[2]int{b.Index, b.Succs[0].Index}] = st.reach
		case *ssa.Return:
			var rs []Val
			for _, r := range x.Results {
				rs = append(rs, e.val(r))
			}
			if fr.inlined {
				fr.rets = append(fr.rets, retSite{reach: st.reach, results: rs, heap: copyHeap(st.heap)})
			} else {
				fr.rets = append(fr.rets, retSite{reach: st.reach})
				e.checkPost(fr, st, rs, x)
			}
		case *ssa.Panic:
			if fr.inlined || e.C == nil || e.C.Options["may-panic"] == "" {
				e.oblige(st, "panic", e.anchor(x.Pos(), "panic"), "false", x.Pos())
			}
		default:
			e.encodeInstr(fr, b, idx, in, st)
		}
	}
	// back edges: invariant must be preserved
	for _, s := range b.Succs {
		if isBackEdge(b, s) {
			li := fr.loops[s]
			cond := fr.edge[[2]int{b.Index, s.Index}]
			if !fr.inlined {
				e.canary(&bstate{reach: cond, heap: st.heap}, fmt.Sprintf("backedge.b%d.loop%d", b.Index, li.ordinal))
			}
			e.checkInvariant(fr, li, b, &bstate{reach: cond, heap: st.heap}, "inv-keep")
		}
	}
}

func (e *Enc) checkPost(fr *frame, st *bstate, rs []Val, ret *ssa.Return) {
	fr.retCount++
	if !fr.inlined {
		dead := false
		if e.C != nil {
			line := e.P.srcLine(ret.Pos())
			for _, a := range e.C.Dead {
				if strings.Contains(line, a) {
					dead = true
				}
			}
		}
		if !dead {
			e.canary(st, fmt.Sprintf("return@%s", e.P.posString(ret.Pos())))
		}
	}
	if e.C == nil {
		return
	}
	if !fr.inlined {
		// ordering clauses: this return has to come after a given statement (dominance in the
		// control-flow graph), unless it comes after one of the listed exceptions
		for _, ra := range e.C.ReturnsAfter {
			domBy := func(anchor string) bool {
				for _, b := range fr.fn.Blocks {
					if !(b == ret.Block() || b.Dominates(ret.Block())) {
						continue
					}
					for _, in := range b.Instrs {
						if in == ssa.Instruction(ret) {
							break
						}
						switch in.(type) {
						case *ssa.Call, *ssa.Store, *ssa.MapUpdate, *ssa.BinOp, *ssa.Defer, *ssa.Go, *ssa.Lookup:
							if in.Pos().IsValid() && strings.Contains(e.P.srcLine(in.Pos()), anchor) {
								return true
							}
						}
					}
				}
				return false
			}
			ok := domBy(ra.After)
			for _, u := range ra.Unless {
				ok = ok || domBy(u)
			}
			if !ok {
				o := e.oblige(st, "order", fmt.Sprintf("%s@%s", ra.After, e.anchor(ret.Pos(), "return")), "false", ret.Pos())
				if o != nil {
					o.Detail = "this return is not preceded by \"" + ra.After + "\" (nor by one of the listed exceptions)"
				}
			}
		}
	}
	for i, cl := range e.C.Ensures {
		if cl.Assumed {
			continue
		}
		// a clause about the state at the k-th Lock only concerns executions that passed that Lock
		if !e.dry && !e.locksDominate(cl.Expr, ret) {
			continue
		}
		env := e.newSpecEnv(fr, st)
		env.entryOnly = true
		env.results = rs
		t, err := env.formula(cl.Expr)
		if err != nil {
			e.errors = append(e.errors, fmt.Sprintf("%s: ensures: %v", cl.Src, err))
			continue
		}
		label := cl.Label
		if label == "" {
			label = fmt.Sprintf("%d", i)
		}
		o := e.oblige(st, "post", fmt.Sprintf("%s@%s", label, e.anchor(ret.Pos(), "return")), t, ret.Pos())
		if o != nil {
			o.Detail = cl.Text
			for _, rv := range rs {
				if rv.Loc == nil && rv.T != "" {
					o.ResTerms = append(o.ResTerms, rv.T)
				}
			}
		}
	}
}

func (e *Enc) setVal(v ssa.Value, x Val) {
	if x.Typ == nil {
		x.Typ = v.Type()
	}
	e.vals[v] = x
}

func (e *Enc) nilCheck(st *bstate, ref string, what string, pos token.Pos) {
	if ref == "" {
		return
	}
	e.oblige(st, "nil", e.anchor(pos, what), sNot(sEq(ref, "0")), pos)
}

func (e *Enc) encodeInstr(fr *frame, b *ssa.BasicBlock, idx int, in ssa.Instruction, st *bstate) {
	switch x := in.(type) {
	case *ssa.Alloc:
		pt := x.Type().(*types.Pointer).Elem()
		r := e.newRef(st, x.Comment)
		if e.W.structInfo(pt) != nil {
			e.zeroInitStruct(st, r, pt)
		} else {
			c := e.W.cellComp(pt)
			old := e.heapVar(st, c)
			n := e.newHeapVersion(st, c)
			e.assert(sEq(n, app("store", old, r, e.W.zero(pt))))
			if at, isArr := pt.Underlying().(*types.Array); isArr {
				// elements of a local array are addressed (IndexAddr, slicing) through the element
				// component with the array's reference as base: zero-initialise it there as well
				ec := e.W.elemComp(at.Elem())
				eo := e.heapVar(st, ec)
				en := e.newHeapVersion(st, ec)
				e.assert(sEq(en, app("store", eo, r, e.W.constArray(e.W.sortOf(at.Elem()), e.W.zero(at.Elem())))))
			}
		}
		e.setVal(x, Val{T: r})
	case *ssa.FieldAddr:
		base := e.val(x.X)
		st0 := x.X.Type().Underlying().(*types.Pointer).Elem()
		si := e.W.structInfo(st0)
		ft := si.St.Field(x.Field).Type()
		if base.Loc != nil {
			l := *base.Loc
			l.Path = append(append([]pathSel(nil), l.Path...), pathSel{si, x.Field})
			l.Typ = ft
			e.setVal(x, Val{Loc: &l})
			return
		}
		e.nilCheck(st, base.T, "field "+si.St.Field(x.Field).Name(), x.Pos())
		if len(e.P.reg.Guards) > 0 {
			e.guardCheck(st, x, base.T)
		}
		if e.W.structInfo(ft) != nil {
			e.setVal(x, Val{T: e.subRef(st0, x.Field, base.T)})
			return
		}
		e.setVal(x, Val{Loc: &Loc{Comp: e.W.fieldComp(si.Type, x.Field), Idx: []string{base.T}, Typ: ft}})
	case *ssa.Field:
		base := e.val(x.X)
		si := e.W.structInfo(x.X.Type())
		e.setVal(x, Val{T: app(si.Fields[x.Field], base.T)})
	case *ssa.IndexAddr:
		e.encodeIndexAddr(st, x)
	case *ssa.Index:
		base := e.val(x.X)
		i := e.term(st, x.Index)
		switch t := x.X.Type().Underlying().(type) {
		case *types.Array:
			e.oblige(st, "index", e.anchor(x.Pos(), "index"), sAnd(app("<=", "0", i), app("<", i, fmt.Sprint(t.Len()))), x.Pos())
			e.setVal(x, Val{T: app("select", base.T, i)})
		case *types.Basic: // string
			e.oblige(st, "index", e.anchor(x.Pos(), "index"), sAnd(app("<=", "0", i), app("<", i, app("slen", base.T))), x.Pos())
			e.setVal(x, Val{T: app("sat", base.T, i)})
		default:
			e.setVal(x, Val{T: e.fresh("index", e.W.sortOf(x.Type()))})
			e.note("unsupported Index on " + x.X.Type().String())
		}
	case *ssa.Lookup:
		e.encodeLookup(st, x)
	case *ssa.UnOp:
		e.encodeUnOp(fr, st, x)
	case *ssa.BinOp:
		e.encodeBinOp(st, x)
	case *ssa.Store:
		addr := e.val(x.Addr)
		v := e.val(x.Val)
		pt := x.Addr.Type().Underlying().(*types.Pointer).Elem()
		if addr.Loc != nil {
			if addr.Loc.Comp.Kind == "elems" && len(addr.Loc.Path) == 0 && len(e.P.reg.ElemInvs) > 0 {
				if inv := e.elemValueInv(st, pt, e.asTerm(v)); inv != "true" {
					e.oblige(st, "elem-inv", e.anchor(x.Pos(), "store element"), inv, x.Pos())
				}
			}
			e.storeLoc(st, addr.Loc, e.asTerm(v))
			return
		}
		e.nilCheck(st, addr.T, "store", x.Pos())
		if fa, ok := x.Addr.(*ssa.FieldAddr); ok {
			if fn := e.growOnlyFieldAddr(fa); fn != "" {
				// guarantee side of grow-only: the field is only ever initialised
				c := e.W.fieldComp(fa.X.Type().Underlying().(*types.Pointer).Elem(), fa.Field)
				e.oblige(st, "grow-only", e.anchor(x.Pos(), "reassignment of grow-only field "+fn), sEq(app("select", e.heapVar(st, c), e.val(fa.X).T), "0"), x.Pos())
			}
		}
		if e.W.structInfo(pt) != nil {
			e.storeStruct(st, addr.T, pt, e.asTerm(v))
			return
		}
		e.storeLoc(st, &Loc{Comp: e.W.cellComp(pt), Idx: []string{addr.T}, Typ: pt}, e.asTerm(v))
	case *ssa.Slice:
		e.encodeSlice(st, x)
	case *ssa.Convert:
		e.encodeConvert(st, x)
	case *ssa.ChangeType:
		v := e.val(x.X)
		if e.W.sortOf(x.Type()) != e.W.sortOf(x.X.Type()) {
			// struct conversion between distinct named types: rebuild field-wise
			si1, si2 := e.W.structInfo(x.X.Type()), e.W.structInfo(x.Type())
			if si1 != nil && si2 != nil && len(si1.Fields) == len(si2.Fields) {
				var fs []string
				for i := range si1.Fields {
					fs = append(fs, app(si1.Fields[i], v.T))
				}
				e.setVal(x, Val{T: e.W.mkStruct(si2, fs)})
				return
			}
			e.note("unsupported ChangeType " + x.String())
			e.setVal(x, Val{T: e.fresh("chtype", e.W.sortOf(x.Type()))})
			return
		}
		e.setVal(x, Val{T: v.T, Loc: v.Loc})
	case *ssa.ChangeInterface:
		e.setVal(x, Val{T: e.term(st, x.X)})
	case *ssa.MakeInterface:
		v := e.val(x.X)
		box, _, _ := e.W.boxFns(x.X.Type())
		e.setVal(x, Val{T: app(box, e.asTerm(v))})
	case *ssa.TypeAssert:
		e.encodeTypeAssert(st, x)
	case *ssa.Extract:
		t := e.val(x.Tuple)
		if x.Index < len(t.Tup) {
			r := t.Tup[x.Index]
			r.Typ = x.Type()
			e.setVal(x, r)
		} else {
			e.setVal(x, Val{T: e.fresh("extract", e.W.sortOf(x.Type()))})
		}
	case *ssa.MakeSlice:
		ln := e.term(st, x.Len)
		cp := e.term(st, x.Cap)
		el := x.Type().Underlying().(*types.Slice).Elem()
		e.oblige(st, "neg-len", e.anchor(x.Pos(), "make"), sAnd(app("<=", "0", ln), app("<=", ln, cp)), x.Pos())
		r := e.newRef(st, "slice")
		c := e.W.elemComp(el)
		old := e.heapVar(st, c)
		n := e.newHeapVersion(st, c)
		e.assert(sEq(n, app("store", old, r, e.W.constArray(e.W.sortOf(el), e.W.zero(el)))))
		e.setVal(x, Val{T: app("mk-slice", r, "0", ln, cp)})
	case *ssa.MakeMap:
		mt := x.Type().Underlying().(*types.Map)
		r := e.newRef(st, "map")
		d, _, l := e.W.mapComps(mt)
		od := e.heapVar(st, d)
		nd := e.newHeapVersion(st, d)
		e.assert(sEq(nd, app("store", od, r, "((as const (Array "+e.W.sortOf(mt.Key())+" Bool)) false)")))
		ol := e.heapVar(st, l)
		nl := e.newHeapVersion(st, l)
		e.assert(sEq(nl, app("store", ol, r, "0")))
		e.setVal(x, Val{T: r})
	case *ssa.MakeChan:
		r := e.newRef(st, "chan")
		if g := e.P.reg.Ghosts["chanClosed"]; g != nil {
			c := e.ghostComp(g)
			old := e.heapVar(st, c)
			nv := e.newHeapVersion(st, c)
			e.assert(sEq(nv, app("store", old, r, "false")))
		}
		e.setVal(x, Val{T: r})
	case *ssa.MakeClosure:
		r := e.newRef(st, "closure")
		e.setVal(x, Val{T: r})
		// bindings that are addresses of locals escape: the closure may write them at any later call
		e.note("closure created: " + x.Fn.Name())
	case *ssa.MapUpdate:
		if mt, ok := x.Map.Type().Underlying().(*types.Map); ok {
			e.protectRange(fr, st, b, mt, e.term(st, x.Map), x.Pos())
		}
		e.encodeMapUpdate(st, x)
	case *ssa.Call:
		if bi, isB := x.Call.Value.(*ssa.Builtin); isB && bi.Name() == "delete" {
			if mt, ok := x.Call.Args[0].Type().Underlying().(*types.Map); ok {
				e.protectRangeDelete(fr, st, b, mt, e.term(st, x.Call.Args[0]), e.asTerm(e.val(x.Call.Args[1])), x.Pos())
			}
		}
		e.encodeCall(fr, st, x, &x.Call, x)
	case *ssa.Defer:
		fr.defers = append(fr.defers, x)
		for _, li := range fr.loops {
			if li.body[b] {
				e.note("defer inside loop (unsupported): " + x.String())
			}
		}
	case *ssa.RunDefers:
		e.runDefersAt(fr, st, b)
	case *ssa.Go:
		// A spawned function with a contract that declares a frame: its preconditions must hold at
		// the go statement and (assuming data-race freedom) everything in its frame may change at
		// any later time, nothing else; its postconditions are not available to the spawner.
		if callee := x.Call.StaticCallee(); callee != nil && !x.Call.IsInvoke() {
			if c := e.P.contractFor(callee); c != nil && c.HasMod {
				var args, bindings []Val
				for _, a := range x.Call.Args {
					args = append(args, e.val(a))
				}
				if mc, ok := x.Call.Value.(*ssa.MakeClosure); ok {
					for _, b := range mc.Bindings {
						bindings = append(bindings, e.val(b))
					}
				}
				e.note("goroutine spawned: frame of " + c.Key + " havocked")
				e.curBindings, e.spawning = bindings, true
				e.applyContract(fr, st, c, callee, nil, args, x.Call.Signature().Results(), x.Pos())
				break
			}
		}
		e.note("goroutine spawned (not modelled): " + x.Call.String())
		// spawned code may write anything it can reach: havoc everything
		e.havocAll(st, "go")
	case *ssa.Send:
		e.note("channel send (not modelled)")
	case *ssa.Select:
		e.note("select (not modelled)")
		var chans []string
		for _, stt := range x.States {
			chans = append(chans, e.term(st, stt.Chan))
		}
		e.havocAll(st, "select")
		if g := e.P.reg.Ghosts["selWait"]; g != nil {
			// built-in ghost: the channels the last select statement waited on, by case index
			c := e.ghostComp(g)
			cur := e.heapVar(st, c)
			for i, ch := range chans {
				cur = app("store", cur, fmt.Sprint(i), ch)
			}
			nv := e.newHeapVersion(st, c)
			e.assert(sEq(nv, cur))
		}
		sv := e.freshVal(st, x.Type(), "select")
		if len(sv.Tup) > 0 && sv.Tup[0].T != "" {
			// the index of the chosen case
			lo := "0"
			if !x.Blocking {
				lo = "(- 1)"
			}
			e.assert(sAnd(app("<=", lo, sv.Tup[0].T), app("<", sv.Tup[0].T, fmt.Sprint(len(x.States)))))
		}
		e.setVal(x, sv)
	case *ssa.Range:
		e.encodeRange(fr, st, x)
	case *ssa.Next:
		e.encodeNext(fr, st, x)
	case *ssa.MultiConvert, *ssa.SliceToArrayPointer:
		e.note("unsupported instruction " + in.String())
		if v, ok := in.(ssa.Value); ok {
			e.setVal(v, e.freshVal(st, v.Type(), "unsup"))
		}
	default:
		e.note(fmt.Sprintf("unsupported instruction %T", in))
		if v, ok := in.(ssa.Value); ok {
			e.setVal(v, e.freshVal(st, v.Type(), "unsup"))
		}
	}
}

func (e *Enc) asTerm(v Val) string {
	if v.Loc != nil {
		return e.locAsRef(v.Loc)
	}
	return v.T
}

// freshVal creates an unconstrained (but well-typed) value of the given type.
func (e *Enc) freshVal(st *bstate, t types.Type, hint string) Val {
	if tup, ok := t.(*types.Tuple); ok {
		var vs []Val
		for i := 0; i < tup.Len(); i++ {
			vs = append(vs, e.freshVal(st, tup.At(i).Type(), hint))
		}
		return Val{Tup: vs, Typ: t}
	}
	n := e.fresh(hint, e.W.sortOf(t))
	v := Val{T: n, Typ: t}
	e.assumeType(v)
	return v
}

func (e *Enc) encodeIndexAddr(st *bstate, x *ssa.IndexAddr) {
	base := e.val(x.X)
	i := e.term(st, x.Index)
	switch t := x.X.Type().Underlying().(type) {
	case *types.Slice:
		s := base.T
		e.oblige(st, "index", e.anchor(x.Pos(), "index"), sAnd(app("<=", "0", i), app("<", i, app("slength", s))), x.Pos())
		e.setVal(x, Val{Loc: &Loc{Comp: e.W.elemComp(t.Elem()), Idx: []string{app("sbase", s), app("idx", app("soff", s), i)}, Typ: t.Elem()}})
	case *types.Pointer: // pointer to array
		at := t.Elem().Underlying().(*types.Array)
		e.oblige(st, "index", e.anchor(x.Pos(), "index"), sAnd(app("<=", "0", i), app("<", i, fmt.Sprint(at.Len()))), x.Pos())
		if base.Loc != nil {
			e.note("IndexAddr on array location: " + x.String())
			e.setVal(x, Val{T: e.fresh("idxaddr", "Int")})
			return
		}
		e.nilCheck(st, base.T, "array", x.Pos())
		// arrays allocated via Alloc live in a cell component holding an SMT array; model element access via elems comp keyed by ref
		e.setVal(x, Val{Loc: &Loc{Comp: e.W.elemComp(at.Elem()), Idx: []string{base.T, app("idx", "0", i)}, Typ: at.Elem()}})
	default:
		e.note("unsupported IndexAddr " + x.String())
		e.setVal(x, Val{T: e.fresh("idxaddr", "Int")})
	}
}

func (e *Enc) encodeLookup(st *bstate, x *ssa.Lookup) {
	base := e.val(x.X)
	k := e.term(st, x.Index)
	switch t := x.X.Type().Underlying().(type) {
	case *types.Basic: // string
		e.oblige(st, "index", e.anchor(x.Pos(), "index"), sAnd(app("<=", "0", k), app("<", k, app("slen", base.T))), x.Pos())
		e.setVal(x, Val{T: app("sat", base.T, k)})
	case *types.Map:
		d, v, _ := e.W.mapComps(t)
		in := sAnd(sNot(sEq(base.T, "0")), app("select", app("select", e.heapVar(st, d), base.T), k))
		val := sIte(in, app("select", app("select", e.heapVar(st, v), base.T), k), e.W.zero(t.Elem()))
		r := e.fresh("lookup", e.W.sortOf(t.Elem()))
		e.assert(sEq(r, val))
		e.assert(e.typeInv(r, t.Elem()))
		e.assert(sImp(in, e.mapValueInv(st, t, k, r)))
		e.assumeAllocated(st, Val{T: r, Typ: t.Elem()})
		if x.CommaOk {
			e.setVal(x, Val{Tup: []Val{{T: r, Typ: t.Elem()}, {T: in, Typ: types.Typ[types.Bool]}}})
		} else {
			e.setVal(x, Val{T: r})
		}
	}
}

func (e *Enc) encodeMapUpdate(st *bstate, x *ssa.MapUpdate) {
	m := e.term(st, x.Map)
	k := e.term(st, x.Key)
	v := e.asTerm(e.val(x.Value))
	mt := x.Map.Type().Underlying().(*types.Map)
	e.oblige(st, "nil-map-write", e.anchor(x.Pos(), "map update"), sNot(sEq(m, "0")), x.Pos())
	if inv := e.mapValueInv(st, mt, k, v); inv != "true" {
		e.oblige(st, "map-inv", e.anchor(x.Pos(), "map update"), inv, x.Pos())
	}
	d, vc, l := e.W.mapComps(mt)
	od, ov, ol := e.heapVar(st, d), e.heapVar(st, vc), e.heapVar(st, l)
	e.frameCheck(st, d, []string{m}, x.Pos())
	was := app("select", app("select", od, m), k)
	nd := e.newHeapVersion(st, d)
	e.assume(st.reach, sEq(nd, app("store", od, m, app("store", app("select", od, m), k, "true"))))
	nv := e.newHeapVersion(st, vc)
	e.assume(st.reach, sEq(nv, app("store", ov, m, app("store", app("select", ov, m), k, v))))
	nl := e.newHeapVersion(st, l)
	e.assume(st.reach, sEq(nl, app("store", ol, m, sIte(was, app("select", ol, m), app("+", app("select", ol, m), "1")))))
}

func (e *Enc) encodeUnOp(fr *frame, st *bstate, x *ssa.UnOp) {
	switch x.Op {
	case token.MUL: // load
		addr := e.val(x.X)
		pt := x.X.Type().Underlying().(*types.Pointer).Elem()
		var t string
		elemInv := ""
		if addr.Loc != nil {
			t = e.loadLoc(st, addr.Loc)
			if addr.Loc.Comp.Kind == "elems" && len(addr.Loc.Path) == 0 && len(e.P.reg.ElemInvs) > 0 {
				elemInv = "?"
			}
		} else {
			e.nilCheck(st, addr.T, "load", x.Pos())
			if e.W.structInfo(pt) != nil {
				t = e.loadStruct(st, addr.T, pt)
			} else {
				t = app("select", e.heapVar(st, e.W.cellComp(pt)), addr.T)
			}
		}
		r := e.fresh("ld."+x.Name(), e.W.sortOf(pt))
		e.assert(sEq(r, t))
		e.assert(e.typeInv(r, pt))
		if elemInv != "" {
			e.assert(e.elemValueInv(st, pt, r))
		}
		e.assumeAllocated(st, Val{T: r, Typ: pt})
		e.setVal(x, Val{T: r})
	case token.NOT:
		e.setVal(x, Val{T: sNot(e.term(st, x.X))})
	case token.SUB:
		v := e.term(st, x.X)
		e.setVal(x, e.arith(st, x, app("-", v), x.Type()))
	case token.XOR:
		v := e.term(st, x.X)
		if _, signed, ok := intBits(x.Type()); ok && !signed {
			_, hi, _ := intRange(x.Type())
			e.setVal(x, Val{T: app("-", hi, v)})
		} else {
			e.setVal(x, Val{T: app("-", app("-", v), "1")})
		}
	case token.ARROW:
		e.syncHavoc(fr, st, x.X, "recv")
		if x.CommaOk {
			e.setVal(x, e.freshVal(st, x.Type(), "recv"))
		} else {
			e.setVal(x, e.freshVal(st, x.Type(), "recv"))
		}
	default:
		e.note("unsupported unop " + x.Op.String())
		e.setVal(x, e.freshVal(st, x.Type(), "unop"))
	}
}

// arith wraps a mathematical result r into the machine type t: equal to r when in range.
func (e *Enc) arith(st *bstate, x ssa.Value, r string, t types.Type) Val {
	lo, hi, ok := intRange(t)
	if !ok {
		return Val{T: r, Typ: t}
	}
	if e.opt("wraps") {
		// "option wraps": exact two's-complement wrap-around for every arithmetic result of the
		// function; "option wraps=<text>": only for operations on source lines containing <text>
		// (underscores in <text> stand for spaces)
		only := strings.ReplaceAll(e.C.Options["wraps"], "_", " ")
		if in, ok := x.(ssa.Instruction); only == "" || (ok && strings.Contains(e.P.srcLine(in.Pos()), only)) {
			bits, signed, _ := intBits(t)
			return Val{T: wrapTerm(r, bits, signed), Typ: t}
		}
	}
	v := e.fresh("ar."+x.Name(), "Int")
	e.assert(sAnd(app("<=", lo, v), app("<=", v, hi)))
	e.assert(sImp(sAnd(app("<=", lo, r), app("<=", r, hi)), sEq(v, r)))
	return Val{T: v, Typ: t}
}

func (e *Enc) opt(name string) bool {
	if e.C == nil {
		return false
	}
	_, ok := e.C.Options[name]
	return ok
}

func pow2(k int) string { return new(big.Int).Lsh(big.NewInt(1), uint(k)).String() }

func wrapTerm(r string, bits int, signed bool) string {
	m := pow2(bits)
	if !signed {
		return app("mod", r, m)
	}
	h := pow2(bits - 1)
	return app("-", app("mod", app("+", r, h), m), h)
}

func constInt(v ssa.Value) (int64, bool) {
	c, ok := v.(*ssa.Const)
	if !ok || c.Value == nil {
		return 0, false
	}
	if b, ok := types.Unalias(c.Type()).Underlying().(*types.Basic); !ok || b.Info()&types.IsInteger == 0 {
		return 0, false
	}
	n, exact := new(big.Int).SetString(c.Value.ExactString(), 10)
	if !exact || !n.IsInt64() {
		return 0, false
	}
	return n.Int64(), true
}

func (e *Enc) encodeBinOp(st *bstate, x *ssa.BinOp) {
	a, b := e.val(x.X), e.val(x.Y)
	at, bt := e.asTerm(a), e.asTerm(b)
	xt := x.X.Type()
	srt := e.W.sortOf(xt)
	isStr := srt == "Str"
	switch x.Op {
	case token.EQL, token.NEQ:
		eq := sEq(at, bt)
		if srt == "Slice" { // only comparison with nil is legal
			if bt == "nilslice" {
				eq = sEq(app("sbase", at), "0")
			} else {
				eq = sEq(app("sbase", bt), "0")
			}
		}
		if x.Op == token.NEQ {
			eq = sNot(eq)
		}
		e.setVal(x, Val{T: eq})
	case token.LSS, token.LEQ, token.GTR, token.GEQ:
		if isStr {
			var t string
			switch x.Op {
			case token.LSS:
				t = app("slt", at, bt)
			case token.GTR:
				t = app("slt", bt, at)
			case token.LEQ:
				t = sNot(app("slt", bt, at))
			default:
				t = sNot(app("slt", at, bt))
			}
			e.setVal(x, Val{T: t})
			return
		}
		op := map[token.Token]string{token.LSS: "<", token.LEQ: "<=", token.GTR: ">", token.GEQ: ">="}[x.Op]
		e.setVal(x, Val{T: app(op, at, bt)})
	case token.ADD:
		if isStr {
			e.setVal(x, Val{T: app("sconcat", at, bt)})
			e.assert(e.typeInv(app("sconcat", at, bt), x.Type())) // the concatenation exists as a Go string
			return
		}
		if srt == "Real" {
			e.setVal(x, Val{T: app("+", at, bt)})
			return
		}
		e.setVal(x, e.arith(st, x, app("+", at, bt), x.Type()))
	case token.SUB:
		if srt == "Real" {
			e.setVal(x, Val{T: app("-", at, bt)})
			return
		}
		e.setVal(x, e.arith(st, x, app("-", at, bt), x.Type()))
	case token.MUL:
		if srt == "Real" {
			e.setVal(x, Val{T: app("*", at, bt)})
			return
		}
		e.setVal(x, e.arith(st, x, app("*", at, bt), x.Type()))
	case token.QUO, token.REM:
		if srt == "Real" {
			e.setVal(x, Val{T: app("/", at, bt)})
			return
		}
		e.oblige(st, "div0", e.anchor(x.Pos(), "div"), sNot(sEq(bt, "0")), x.Pos())
		// Go truncates toward zero; SMT div floors (for positive divisor) – express via abs
		q := sIte(app(">=", at, "0"),
			sIte(app(">", bt, "0"), app("div", at, bt), app("-", app("div", at, app("-", bt)))),
			sIte(app(">", bt, "0"), app("-", app("div", app("-", at), bt)), app("div", app("-", at), app("-", bt))))
		if x.Op == token.QUO {
			e.setVal(x, e.arith(st, x, q, x.Type()))
		} else {
			e.setVal(x, Val{T: app("-", at, app("*", bt, q))})
		}
	case token.AND:
		if srt == "Bool" {
			e.setVal(x, Val{T: sAnd(at, bt)})
			return
		}
		if k, ok := constInt(x.Y); ok && k >= 0 {
			e.setVal(x, Val{T: andConst(at, k, xt)})
			return
		}
		if k, ok := constInt(x.X); ok && k >= 0 {
			e.setVal(x, Val{T: andConst(bt, k, xt)})
			return
		}
		e.note("non-constant bit operation & (uninterpreted)")
		e.setVal(x, e.uninterpInt(app("bitand", at, bt), x.Type()))
	case token.OR:
		if srt == "Bool" {
			e.setVal(x, Val{T: sOr(at, bt)})
			return
		}
		e.note("bit operation | (uninterpreted)")
		e.setVal(x, e.uninterpInt(app("bitor", at, bt), x.Type()))
	case token.XOR:
		e.note("bit operation ^ (uninterpreted)")
		e.setVal(x, e.uninterpInt(app("bitxor", at, bt), x.Type()))
	case token.AND_NOT:
		e.note("bit operation &^ (uninterpreted)")
		e.setVal(x, e.uninterpInt(app("bitand", at, app("bitnot", bt)), x.Type()))
	case token.SHL:
		if k, ok := constInt(x.Y); ok && k >= 0 && k < 64 {
			bits, signed, _ := intBits(x.Type())
			r := app("*", at, pow2(int(k)))
			if !signed {
				e.setVal(x, Val{T: wrapTerm(r, bits, false)})
			} else {
				e.setVal(x, e.arith(st, x, r, x.Type()))
			}
			return
		}
		e.note("non-constant shift << (uninterpreted)")
		e.setVal(x, e.uninterpInt(app("shl", at, bt), x.Type()))
	case token.SHR:
		if k, ok := constInt(x.Y); ok && k >= 0 && k < 64 {
			e.setVal(x, Val{T: app("div", at, pow2(int(k)))})
			return
		}
		e.note("non-constant shift >> (uninterpreted)")
		e.setVal(x, e.uninterpInt(app("shr", at, bt), x.Type()))
	default:
		e.note("unsupported binop " + x.Op.String())
		e.setVal(x, e.freshVal(st, x.Type(), "binop"))
	}
}

func (e *Enc) uninterpInt(t string, typ types.Type) Val {
	v := e.fresh("bits", "Int")
	e.assert(sEq(v, t))
	e.assert(e.typeInv(v, typ))
	return Val{T: v, Typ: typ}
}

// andConst encodes x & k for a non-negative constant k and non-negative x
// (for negative x in two's complement the low bits agree with mod as well
// because SMT mod is Euclidean).
func andConst(x string, k int64, t types.Type) string {
	if k == 0 {
		return "0"
	}
	// k = 2^n - 1 ?
	if k&(k+1) == 0 {
		n := 0
		for (int64(1) << n) <= k {
			n++
		}
		return app("mod", x, pow2(n))
	}
	var parts []string
	for bit := 0; bit < 63; bit++ {
		if k&(int64(1)<<bit) != 0 {
			p := app("mod", app("div", x, pow2(bit)), "2")
			if bit > 0 {
				p = app("*", pow2(bit), p)
			}
			parts = append(parts, p)
		}
	}
	if len(parts) == 1 {
		return parts[0]
	}
	return app("+", parts...)
}

func (e *Enc) encodeSlice(st *bstate, x *ssa.Slice) {
	base := e.val(x.X)
	var lo, hi, mx string
	if x.Low != nil {
		lo = e.term(st, x.Low)
	} else {
		lo = "0"
	}
	switch t := x.X.Type().Underlying().(type) {
	case *types.Slice:
		s := base.T
		if x.High != nil {
			hi = e.term(st, x.High)
		} else {
			hi = app("slength", s)
		}
		if x.Max != nil {
			mx = e.term(st, x.Max)
		} else {
			mx = app("scap", s)
		}
		e.oblige(st, "slice", e.anchor(x.Pos(), "slice"), sAnd(app("<=", "0", lo), app("<=", lo, hi), app("<=", hi, mx), app("<=", mx, app("scap", s))), x.Pos())
		r := e.fresh("sl."+x.Name(), "Slice")
		e.assert(sEq(r, app("mk-slice", app("sbase", s), app("+", app("soff", s), lo), app("-", hi, lo), app("-", mx, lo))))
		e.setVal(x, Val{T: r})
	case *types.Basic: // string
		s := base.T
		if x.High != nil {
			hi = e.term(st, x.High)
		} else {
			hi = app("slen", s)
		}
		e.oblige(st, "slice", e.anchor(x.Pos(), "slice"), sAnd(app("<=", "0", lo), app("<=", lo, hi), app("<=", hi, app("slen", s))), x.Pos())
		e.setVal(x, Val{T: app("ssub", s, lo, hi)})
	case *types.Pointer: // pointer to array
		at := t.Elem().Underlying().(*types.Array)
		n := fmt.Sprint(at.Len())
		if x.High != nil {
			hi = e.term(st, x.High)
		} else {
			hi = n
		}
		e.oblige(st, "slice", e.anchor(x.Pos(), "slice"), sAnd(app("<=", "0", lo), app("<=", lo, hi), app("<=", hi, n)), x.Pos())
		if base.Loc != nil {
			e.note("slice of array location")
			e.setVal(x, e.freshVal(st, x.Type(), "arrslice"))
			return
		}
		e.nilCheck(st, base.T, "array", x.Pos())
		r := e.fresh("sl."+x.Name(), "Slice")
		e.assert(sEq(r, app("mk-slice", base.T, lo, app("-", hi, lo), app("-", n, lo))))
		e.setVal(x, Val{T: r})
	default:
		e.note("unsupported Slice " + x.String())
		e.setVal(x, e.freshVal(st, x.Type(), "slice"))
	}
}

func (e *Enc) encodeConvert(st *bstate, x *ssa.Convert) {
	v := e.val(x.X)
	from, to := x.X.Type(), x.Type()
	fs, ts := e.W.sortOf(from), e.W.sortOf(to)
	_, _, fromInt := intBits(from)
	bits, signed, toInt := intBits(to)
	switch {
	case fromInt && toInt:
		flo, fhi, _ := intRange(from)
		tlo, thi, _ := intRange(to)
		_ = flo
		_ = fhi
		// if source range fits the target nothing to do
		if rangeWithin(from, to) {
			e.setVal(x, Val{T: v.T})
			return
		}
		r := e.fresh("conv."+x.Name(), "Int")
		e.assert(sAnd(app("<=", tlo, r), app("<=", r, thi)))
		e.assert(sImp(sAnd(app("<=", tlo, v.T), app("<=", v.T, thi)), sEq(r, v.T)))
		e.assert(sEq(r, wrapTerm(v.T, bits, signed)))
		e.setVal(x, Val{T: r})
	case fs == "Str" && ts == "Slice": // []byte(s)
		el := to.Underlying().(*types.Slice).Elem()
		r := e.newRef(st, "bytes")
		c := e.W.elemComp(el)
		old := e.heapVar(st, c)
		n := e.newHeapVersion(st, c)
		arr := e.fresh("bytesof", "(Array Int Int)")
		e.assert(fmt.Sprintf("(forall ((i Int)) (! (=> (and (<= 0 i) (< i (slen %s))) (= (select %s i) (sat %s i))) :pattern ((select %s i))))", v.T, arr, v.T, arr))
		e.assert(sEq(n, app("store", old, r, arr)))
		if b, ok := el.Underlying().(*types.Basic); ok && b.Kind() == types.Uint8 {
			// the string made of the bytes of s is s
			e.W.declareStrOfArr()
			e.assert(sEq(app("strofarr", arr, "0", app("slen", v.T)), v.T))
		}
		e.setVal(x, Val{T: app("mk-slice", r, "0", app("slen", v.T), app("slen", v.T))})
		if b, ok := el.Underlying().(*types.Basic); !ok || b.Kind() != types.Uint8 {
			e.note("[]rune(string) conversion approximated")
		}
	case fs == "Slice" && ts == "Str": // string(bytes)
		el := from.Underlying().(*types.Slice).Elem()
		c := e.W.elemComp(el)
		if b, ok := el.Underlying().(*types.Basic); !ok || b.Kind() != types.Uint8 {
			e.note("string([]rune) conversion approximated")
		}
		// same term as the specification-level bytes(s): the string made of the slice's current content
		e.W.declareStrOfArr()
		r := e.fresh("strof", "Str")
		e.assert(sEq(r, app("strofarr", app("select", e.heapVar(st, c), app("sbase", v.T)), app("soff", v.T), app("slength", v.T))))
		e.assert(e.typeInv(r, x.Type()))
		e.setVal(x, Val{T: r})
	case fromInt && ts == "Str": // string(rune)
		r := e.fresh("strofrune", "Str")
		e.assert(sImp(sAnd(app("<=", "0", v.T), app("<", v.T, "128")), sEq(r, app("sbyte", v.T))))
		e.setVal(x, Val{T: r})
	case fs == ts:
		e.setVal(x, Val{T: v.T, Loc: v.Loc})
	case fs == "Real" && toInt:
		// int64(f): the uninterpreted function realTrunc (declared in the extern contracts, where
		// the library functions that produce the float say what its truncation is)
		if sf := e.P.reg.Specs["realTrunc"]; sf != nil && sf.Body == nil {
			if sig, err := e.specShell(sf); err == nil {
				sig.state = 2
				r := e.freshVal(st, to, "fconv")
				lo, hi, ok := intRange(to)
				tr := app(sig.smt, v.T)
				if ok {
					e.assert(sImp(sAnd(app("<=", lo, tr), app("<=", tr, hi)), sEq(r.T, tr)))
				} else {
					e.assert(sEq(r.T, tr))
				}
				e.setVal(x, r)
				break
			}
		}
		e.note("float/int conversion (uninterpreted)")
		e.setVal(x, e.freshVal(st, to, "fconv"))
	case fromInt && ts == "Real":
		e.note("float/int conversion (uninterpreted)")
		e.setVal(x, e.freshVal(st, to, "fconv"))
	default:
		e.note("unsupported conversion " + x.String())
		e.setVal(x, e.freshVal(st, to, "conv"))
	}
}

func rangeWithin(from, to types.Type) bool {
	fb, fsig, _ := intBits(from)
	tb, tsig, _ := intBits(to)
	if fsig == tsig {
		return fb <= tb
	}
	if !fsig && tsig {
		return fb < tb
	}
	return false
}

func (e *Enc) encodeTypeAssert(st *bstate, x *ssa.TypeAssert) {
	v := e.term(st, x.X)
	at := x.AssertedType
	if types.IsInterface(at) {
		// interface-to-interface: succeeds iff dynamic type implements; uninterpreted predicate of the tag
		pn := "implements!" + sanitize(shortTypeName(at))
		e.W.declare(pn, fmt.Sprintf("(declare-fun %s (Int) Bool)\n(assert (not (%s 0)))", pn, pn))
		ok := app(pn, app("itag", v))
		if x.CommaOk {
			res := e.fresh("ta", "Iface")
			e.assert(sEq(res, sIte(ok, v, "nil!iface")))
			e.setVal(x, Val{Tup: []Val{{T: res, Typ: at}, {T: ok, Typ: types.Typ[types.Bool]}}})
		} else {
			e.oblige(st, "type-assert", e.anchor(x.Pos(), "type assertion"), ok, x.Pos())
			e.setVal(x, Val{T: v})
		}
		return
	}
	_, unbox, tag := e.W.boxFns(at)
	ok := sEq(app("itag", v), fmt.Sprint(tag))
	if x.CommaOk {
		res := e.fresh("ta", e.W.sortOf(at))
		e.assert(sEq(res, sIte(ok, app(unbox, v), e.W.zero(at))))
		e.assert(e.typeInv(res, at))
		e.setVal(x, Val{Tup: []Val{{T: res, Typ: at}, {T: ok, Typ: types.Typ[types.Bool]}}})
	} else {
		e.oblige(st, "type-assert", e.anchor(x.Pos(), "type assertion"), ok, x.Pos())
		res := e.fresh("ta", e.W.sortOf(at))
		e.assert(sEq(res, app(unbox, v)))
		e.assert(e.typeInv(res, at))
		e.setVal(x, Val{T: res})
	}
}

type rangeModel struct {
	it    string // iterator reference
	m     string // map term
	mt    *types.Map
	rk    string // (it, pos) -> key
	ri    string // (it, key) -> pos
	rn    string // it -> number of keys
	exact bool
	dom0  string // domain / values / size of the map when the range statement started
	val0  string
	len0  string
}

func (e *Enc) iterComp() *Comp { return e.W.comp("IT!pos", "(Array Int Int)", "iter") }

// mapRangeExact: the exact enumeration model applies when the loop that iterates rng
// does not add/remove keys of the ranged map. If the loop updates maps of the same
// type directly (MapUpdate / delete instructions, no calls), the model still applies
// provided each such update targets a different map object: that is turned into a
// "range-stable" obligation at each update (see protectRange).
func (e *Enc) mapRangeExact(fr *frame, rng *ssa.Range, mt *types.Map) bool {
	if e.opt("weakrange") {
		return false // contract asks for the coarse "some present key" model (e.g. the loop updates the ranged map itself)
	}
	if e.dry {
		return true
	}
	d, _, _ := e.W.mapComps(mt)
	for _, ref := range *rng.Referrers() {
		nx, ok := ref.(*ssa.Next)
		if !ok {
			continue
		}
		li := fr.loops[nx.Block()]
		if li == nil {
			return false
		}
		w := e.loopWrites(li)
		if w["*"] {
			return false
		}
		if w[d.Name] {
			// only direct updates allowed
			for b := range li.body {
				for _, in := range b.Instrs {
					switch c := in.(type) {
					case *ssa.Call:
						if bi, isB := c.Call.Value.(*ssa.Builtin); isB && (bi.Name() == "delete" || bi.Name() == "len" || bi.Name() == "append" || bi.Name() == "cap" || bi.Name() == "copy") {
							continue
						}
						if e.callLeavesComp(fr, &c.Call, d.Name) {
							continue // a call whose contract's frame excludes this map type's key sets
						}
						return false
					case *ssa.Go, *ssa.Defer, *ssa.Select:
						return false
					}
				}
			}
			e.protected[li] = append(e.protected[li], rng)
		}
	}
	return true
}

// protectRange: an update of map m inside a loop that ranges (with the exact model) over
// maps of the same type must not touch the ranged map itself.
func (e *Enc) protectRange(fr *frame, st *bstate, b *ssa.BasicBlock, mt *types.Map, m string, pos token.Pos) {
	for li, rngs := range e.protected {
		if !li.body[b] {
			continue
		}
		for _, rng := range rngs {
			rm := e.ranges[rng]
			if rm == nil || !types.Identical(rm.mt, mt) {
				continue
			}
			e.oblige(st, "range-stable", e.anchor(pos, "map update during range"), sNot(sEq(m, rm.m)), pos)
		}
	}
}

// protectRangeDelete: deleting from the ranged map itself is allowed for keys the iteration
// has already produced (the current one included): per the Go specification the remaining
// iteration is unaffected.
func (e *Enc) protectRangeDelete(fr *frame, st *bstate, b *ssa.BasicBlock, mt *types.Map, m, key string, pos token.Pos) {
	if !e.opt("rangedelete") {
		// default: a loop must not touch the map it ranges over at all
		e.protectRange(fr, st, b, mt, m, pos)
		return
	}
	for li, rngs := range e.protected {
		if !li.body[b] {
			continue
		}
		for _, rng := range rngs {
			rm := e.ranges[rng]
			if rm == nil || !types.Identical(rm.mt, mt) {
				continue
			}
			cur := app("select", e.heapVar(st, e.iterComp()), rm.it)
			e.oblige(st, "range-stable", e.anchor(pos, "delete during range"), sOr(sNot(sEq(m, rm.m)), app("<", app(rm.ri, rm.it, key), cur)), pos)
		}
	}
}

// loopDeletes: the loop contains a delete on a map of type mt.
func loopDeletes(li *loopInfo, mt *types.Map) bool {
	for b := range li.body {
		for _, in := range b.Instrs {
			if c, ok := in.(*ssa.Call); ok {
				if bi, isB := c.Call.Value.(*ssa.Builtin); isB && bi.Name() == "delete" {
					if t, ok := c.Call.Args[0].Type().Underlying().(*types.Map); ok && types.Identical(t, mt) {
						return true
					}
				}
			}
		}
	}
	return false
}

// callLeavesComp: the call has a contract with a declared frame that does not contain comp.
func (e *Enc) callLeavesComp(fr *frame, call *ssa.CallCommon, comp string) bool {
	var c *Contract
	if call.IsInvoke() {
		c = e.P.reg.Contracts[ifaceMethodKey(call.Value.Type(), call.Method)]
	} else if callee := call.StaticCallee(); callee != nil {
		c = e.P.contractFor(callee)
	} else if fa := mapFieldOfFuncValue(call.Value); fa != nil {
		if pt, ok := fa.X.Type().Underlying().(*types.Pointer); ok {
			if named, ok := types.Unalias(pt.Elem()).(*types.Named); ok && named.Obj().Pkg() != nil {
				stt := named.Underlying().(*types.Struct)
				c = e.P.reg.Contracts[named.Obj().Pkg().Path()+"#"+named.Obj().Name()+"."+stt.Field(fa.Field).Name()]
			}
		}
	} else if named, ok := types.Unalias(call.Value.Type()).(*types.Named); ok && named.Obj().Pkg() != nil {
		c = e.P.reg.Contracts[named.Obj().Pkg().Path()+"#"+named.Obj().Name()]
	}
	if c == nil || !(c.HasMod || c.Pure) {
		return false
	}
	for _, m := range c.Modifies {
		if strings.HasPrefix(m, "onlyfresh(") {
			return false
		}
		if i := strings.Index(m, "@"); i >= 0 {
			m = strings.TrimSpace(m[:i])
		}
		for _, cn := range e.resolveCompSpecPkg(m, c.Pkg) {
			if cn == comp {
				return false
			}
		}
	}
	return true
}

// encodeRange sets up the ghost enumeration of a map's keys: a duplicate-free
// sequence rk(it,0..rn-1) that covers exactly the keys present when the range
// statement starts (any order: the sequence is uninterpreted).
func (e *Enc) encodeRange(fr *frame, st *bstate, x *ssa.Range) {
	mt, ok := x.X.Type().Underlying().(*types.Map)
	if !ok {
		e.setVal(x, Val{T: e.term(st, x.X), Typ: x.X.Type()})
		return
	}
	m := e.term(st, x.X)
	rm := &rangeModel{m: m, mt: mt, exact: e.mapRangeExact(fr, x, mt)}
	e.ranges[x] = rm
	e.setVal(x, Val{T: m, Typ: x.X.Type()})
	if !rm.exact {
		e.note("map modified while ranging over it: iteration modelled as 'some present key'")
		return
	}
	ks := e.W.sortOf(mt.Key())
	e.nfresh++
	id := e.nfresh
	rm.rk, rm.ri, rm.rn = fmt.Sprintf("rk!%d", id), fmt.Sprintf("ri!%d", id), fmt.Sprintf("rn!%d", id)
	e.items = append(e.items, fmt.Sprintf("(declare-fun %s (Int Int) %s)", rm.rk, ks),
		fmt.Sprintf("(declare-fun %s (Int %s) Int)", rm.ri, ks), fmt.Sprintf("(declare-fun %s (Int) Int)", rm.rn))
	rm.it = e.newRef(st, "iter")
	d, vcomp, l := e.W.mapComps(mt)
	dom := app("select", e.heapVar(st, d), m)
	rm.dom0, rm.val0, rm.len0 = dom, app("select", e.heapVar(st, vcomp), m), app("select", e.heapVar(st, l), m)
	inDom := func(k string) string { return sAnd(sNot(sEq(m, "0")), app("select", dom, k)) }
	n := app(rm.rn, rm.it)
	e.assume(st.reach, sEq(n, sIte(sEq(m, "0"), "0", app("select", e.heapVar(st, l), m))))
	e.assume(st.reach, app(">=", n, "0"))
	e.assume(st.reach, fmt.Sprintf("(forall ((p Int)) (! (=> (and (<= 0 p) (< p %s)) (and %s (= (%s %s (%s %s p)) p))) :pattern ((%s %s p))))",
		n, inDom(app(rm.rk, rm.it, "p")), rm.ri, rm.it, rm.rk, rm.it, rm.rk, rm.it))
	e.assume(st.reach, fmt.Sprintf("(forall ((k %s)) (! (=> %s (and (<= 0 (%s %s k)) (< (%s %s k) %s) (= (%s %s (%s %s k)) k))) :pattern ((%s %s k)) :pattern ((select %s k))))",
		ks, inDom("k"), rm.ri, rm.it, rm.ri, rm.it, n, rm.rk, rm.it, rm.ri, rm.it, rm.ri, rm.it, dom))
	ic := e.iterComp()
	old := e.heapVar(st, ic)
	nv := e.newHeapVersion(st, ic)
	e.assert(sEq(nv, app("store", old, rm.it, "0")))
}

func (e *Enc) encodeNext(fr *frame, st *bstate, x *ssa.Next) {
	rng, _ := x.Iter.(*ssa.Range)
	if x.IsString || rng == nil {
		e.note("range over string iterated with unconstrained Next")
		e.setVal(x, e.freshVal(st, x.Type(), "next"))
		return
	}
	mt, ok := rng.X.Type().Underlying().(*types.Map)
	if !ok {
		e.setVal(x, e.freshVal(st, x.Type(), "next"))
		return
	}
	m := e.val(rng).T
	okv := e.fresh("next.ok", "Bool")
	k := e.fresh("next.k", e.W.sortOf(mt.Key()))
	v := e.fresh("next.v", e.W.sortOf(mt.Elem()))
	d, vc, _ := e.W.mapComps(mt)
	e.assert(e.typeInv(k, mt.Key()))
	e.assert(e.typeInv(v, mt.Elem()))
	// each step yields a key that is currently present together with its current value
	e.assume(st.reach, sImp(okv, sAnd(sNot(sEq(m, "0")), app("select", app("select", e.heapVar(st, d), m), k),
		sEq(v, app("select", app("select", e.heapVar(st, vc), m), k)))))
	if rm := e.ranges[rng]; rm != nil && rm.exact {
		// ... namely the next one of the ghost enumeration
		ic := e.iterComp()
		old := e.heapVar(st, ic)
		pos := app("select", old, rm.it)
		e.assume(st.reach, sEq(okv, app("<", pos, app(rm.rn, rm.it))))
		e.assume(st.reach, sImp(okv, sEq(k, app(rm.rk, rm.it, pos))))
		nv := e.newHeapVersion(st, ic)
		e.assume(st.reach, sEq(nv, app("store", old, rm.it, sIte(okv, app("+", pos, "1"), pos))))
	}
	vv := Val{T: v, Typ: mt.Elem()}
	e.assumeAllocated(st, vv)
	e.assume(st.reach, sImp(okv, e.mapValueInv(st, mt, k, v)))
	e.setVal(x, Val{Tup: []Val{{T: okv, Typ: types.Typ[types.Bool]}, {T: k, Typ: mt.Key()}, vv}})
}

// headerRange finds the exact map-range model iterated by the Next in a loop header.
func (e *Enc) headerRange(li *loopInfo) *rangeModel {
	for _, in := range li.header.Instrs {
		if nx, ok := in.(*ssa.Next); ok {
			if rng, ok := nx.Iter.(*ssa.Range); ok {
				if rm := e.ranges[rng]; rm != nil && rm.exact {
					return rm
				}
			}
		}
	}
	return nil
}

// runDefersAt executes, in reverse order, the deferred calls whose Defer
// instruction dominates block b. A Defer that may or may not have executed on the
// way to b is outside the subset: everything is havocked.
func (e *Enc) runDefersAt(fr *frame, st *bstate, b *ssa.BasicBlock) {
	for i := len(fr.defers) - 1; i >= 0; i-- {
		d := fr.defers[i]
		if d.Block() == b || d.Block().Dominates(b) {
			e.encodeCall(fr, st, nil, &d.Call, d)
			continue
		}
		// conditional defer: reachable from d's block?
		if reaches(d.Block(), b) {
			e.note("conditionally executed defer (havoc): " + d.String())
			e.havocAll(st, "conditional defer")
		}
	}
}

func reaches(from, to *ssa.BasicBlock) bool {
	seen := map[*ssa.BasicBlock]bool{}
	stack := []*ssa.BasicBlock{from}
	for len(stack) > 0 {
		x := stack[len(stack)-1]
		stack = stack[:len(stack)-1]
		if x == to {
			return true
		}
		if seen[x] {
			continue
		}
		seen[x] = true
		stack = append(stack, x.Succs...)
	}
	return false
}

func trimPkg(s string) string {
	if i := strings.LastIndex(s, "/"); i >= 0 {
		return s[i+1:]
	}
	return s
}

// mapValueInv returns the conjunction of the declared value invariants of map type mt
// instantiated at key k and value v.
func (e *Enc) mapValueInv(st *bstate, mt *types.Map, k, v string) string {
	var cs []string
	for _, mi := range e.P.reg.MapInvs {
		pkg := e.P.tpkgs[mi.Pkg]
		if pkg == nil {
			continue // package not part of this program
		}
		if !mi.appliesTo(fnDisplay(e.fn)) {
			continue
		}
		t, err := e.evalType(mi.TypeText, pkg)
		if err != nil {
			e.errors = append(e.errors, fmt.Sprintf("%s: mapvalues: %v", mi.Src, err))
			continue
		}
		if !types.Identical(t.Underlying(), mt) {
			continue
		}
		env := e.newSpecEnv(nil, st)
		env.pkg = pkg
		env.binders["k"] = SVal{T: k, Typ: mt.Key(), Sort: e.W.sortOf(mt.Key())}
		env.binders["v"] = SVal{T: v, Typ: mt.Elem(), Sort: e.W.sortOf(mt.Elem())}
		f, err := env.formula(mi.Expr)
		if err != nil {
			e.errors = append(e.errors, fmt.Sprintf("%s: mapvalues: %v", mi.Src, err))
			continue
		}
		cs = append(cs, f)
	}
	return sAnd(cs...)
}

// localSlicePhi: the slice carried by header phi p starts as nil or a slice made by
// this function and is only ever extended with append (so it never aliases memory
// that existed at function entry).
func (e *Enc) localSlicePhi(li *loopInfo, p *ssa.Phi) bool {
	seen := map[ssa.Value]bool{}
	var ok func(v ssa.Value) bool
	ok = func(v ssa.Value) bool {
		if seen[v] {
			return true
		}
		seen[v] = true
		switch x := v.(type) {
		case *ssa.Const:
			return x.Value == nil
		case *ssa.MakeSlice:
			return true
		case *ssa.Phi:
			for _, ed := range x.Edges {
				if !ok(ed) {
					return false
				}
			}
			return true
		case *ssa.Call:
			if b, isB := x.Call.Value.(*ssa.Builtin); isB && b.Name() == "append" {
				return ok(x.Call.Args[0])
			}
		case *ssa.Slice:
			// s[:0] style reslicing of a local slice keeps the base
			return ok(x.X)
		}
		return false
	}
	return ok(p)
}

// elemValueInv: declared invariants on the elements of slices with element type el.
func (e *Enc) elemValueInv(st *bstate, el types.Type, v string) string {
	var cs []string
	for _, mi := range e.P.reg.ElemInvs {
		pkg := e.P.tpkgs[mi.Pkg]
		if pkg == nil {
			continue
		}
		if !mi.appliesTo(fnDisplay(e.fn)) {
			continue
		}
		t, err := e.evalType(mi.TypeText, pkg)
		if err != nil {
			e.errors = append(e.errors, fmt.Sprintf("%s: elemvalues: %v", mi.Src, err))
			continue
		}
		slt, ok := t.Underlying().(*types.Slice)
		if !ok || !types.Identical(slt.Elem(), el) {
			continue
		}
		env := e.newSpecEnv(nil, st)
		env.pkg = pkg
		env.binders["v"] = SVal{T: v, Typ: el, Sort: e.W.sortOf(el)}
		f, err := env.formula(mi.Expr)
		if err != nil {
			e.errors = append(e.errors, fmt.Sprintf("%s: elemvalues: %v", mi.Src, err))
			continue
		}
		cs = append(cs, f)
	}
	return sAnd(cs...)
}


// locksDominate: every atlock(e[, k]) in x refers to a Lock call that every path to ret passes.
func (e *Enc) locksDominate(x *CExpr, ret *ssa.Return) bool {
	if x == nil {
		return true
	}
	if x.Op == "call" && x.Name == "atlock" {
		k := 1
		if len(x.Args) == 2 && x.Args[1] != nil && x.Args[1].Op == "lit-int" {
			k, _ = strconv.Atoi(x.Args[1].Int)
		}
		if k < 1 || k > len(e.lockInstrs) {
			return false
		}
		li := e.lockInstrs[k-1]
		if li == nil || li.Block() == nil {
			return false
		}
		if !(li.Block() == ret.Block() || li.Block().Dominates(ret.Block())) {
			return false
		}
	}
	for _, a := range x.Args {
		if !e.locksDominate(a, ret) {
			return false
		}
	}
	return true
}


// syncHavoc: what a blocking receive makes visible. If the channel was made in this function
// and every goroutine this function spawns has a contract with a frame, only those frames
// can have changed (plus whatever is modelled at Lock operations); otherwise everything is
// havocked.
func (e *Enc) syncHavoc(fr *frame, st *bstate, ch ssa.Value, why string) {
	local := func(v ssa.Value) bool {
		seen := map[ssa.Value]bool{}
		var ok func(v ssa.Value) bool
		ok = func(v ssa.Value) bool {
			if seen[v] {
				return true
			}
			seen[v] = true
			switch x := v.(type) {
			case *ssa.MakeChan:
				return true
			case *ssa.Const:
				return x.IsNil()
			case *ssa.Phi:
				for _, ed := range x.Edges {
					if !ok(ed) {
						return false
					}
				}
				return true
			case *ssa.ChangeType:
				return ok(x.X)
			case *ssa.UnOp: // load of a local variable holding the channel
				if x.Op == token.MUL {
					if al, isAl := x.X.(*ssa.Alloc); isAl {
						for _, r := range *al.Referrers() {
							if stv, isSt := r.(*ssa.Store); isSt && stv.Addr == al && !ok(stv.Val) {
								return false
							}
						}
						return true
					}
				}
			}
			return false
		}
		return ok(v)
	}
	var comps []string
	known := !fr.inlined && local(ch)
	if known {
		for _, b := range fr.fn.Blocks {
			for _, in := range b.Instrs {
				g, isGo := in.(*ssa.Go)
				if !isGo {
					continue
				}
				callee := g.Call.StaticCallee()
				var c *Contract
				if callee != nil && !g.Call.IsInvoke() {
					c = e.P.contractFor(callee)
				}
				if c == nil || !c.HasMod {
					known = false
					break
				}
				for _, m := range c.Modifies {
					if strings.HasPrefix(m, "onlyfresh(") {
						known = false
						break
					}
					if i := strings.Index(m, "@"); i >= 0 {
						m = strings.TrimSpace(m[:i])
					}
					comps = append(comps, e.resolveCompSpecPkg(m, c.Pkg)...)
				}
			}
		}
	}
	if !known {
		e.note("channel receive (not modelled)")
		e.havocAll(st, why)
		return
	}
	e.note("channel receive: frames of the goroutines spawned here havocked")
	for _, cn := range comps {
		if c := e.W.comps[cn]; c != nil {
			if e.curWrite != nil {
				e.curWrite[cn] = true
			}
			e.newHeapVersion(st, c)
		}
	}
}
