package main

import (
	"fmt"
	"strconv"
	"strings"
	"unicode"
)

// Contract expression language (Gobra-like, Go-flavoured):
//
//   forall i, j int :: body        exists x T :: body
//   a ==> b   a <==> b   || && !   == != < <= > >=   + - * / %
//   x.f   s[i]   s[lo:hi]   f(args)   old(e)   result   result_1
//   literals: 123  "str"  'c'  true false nil

type CExpr struct {
	Op      string // "lit-int","lit-str","lit-bool","nil","id","sel","index","slice","call","un","bin","forall","exists","old","ite"
	Name    string // id name, selector name, operator, callee name
	Args    []*CExpr
	Int     string
	Str     string
	Binders []CBinder
	Pos     int
}

type CBinder struct {
	Name string
	Type string
}

func (e *CExpr) String() string {
	switch e.Op {
	case "lit-int":
		return e.Int
	case "lit-str":
		return strconv.Quote(e.Str)
	case "lit-bool", "id", "nil":
		return e.Name
	case "sel":
		return e.Args[0].String() + "." + e.Name
	case "index":
		return e.Args[0].String() + "[" + e.Args[1].String() + "]"
	case "slice":
		lo, hi := "", ""
		if e.Args[1] != nil {
			lo = e.Args[1].String()
		}
		if e.Args[2] != nil {
			hi = e.Args[2].String()
		}
		return e.Args[0].String() + "[" + lo + ":" + hi + "]"
	case "update":
		return e.Args[0].String() + "[" + e.Args[1].String() + " := " + e.Args[2].String() + "]"
	case "call":
		var as []string
		for _, a := range e.Args {
			as = append(as, a.String())
		}
		return e.Name + "(" + strings.Join(as, ", ") + ")"
	case "old":
		return "old(" + e.Args[0].String() + ")"
	case "un":
		return e.Name + e.Args[0].String()
	case "bin":
		return "(" + e.Args[0].String() + " " + e.Name + " " + e.Args[1].String() + ")"
	case "ite":
		return "(" + e.Args[0].String() + " ? " + e.Args[1].String() + " : " + e.Args[2].String() + ")"
	case "forall", "exists":
		var bs []string
		for _, b := range e.Binders {
			bs = append(bs, b.Name+" "+b.Type)
		}
		return "(" + e.Op + " " + strings.Join(bs, ", ") + " :: " + e.Args[0].String() + ")"
	}
	return "?"
}

type ctok struct {
	kind string // int, str, char, id, op, eof
	text string
	pos  int
}

type cparser struct {
	src  string
	toks []ctok
	p    int
}

func parseCExpr(src string) (e *CExpr, err error) {
	defer func() {
		if r := recover(); r != nil {
			if pe, ok := r.(parseErr); ok {
				err = fmt.Errorf("%s in %q", string(pe), src)
				return
			}
			panic(r)
		}
	}()
	p := &cparser{src: src}
	p.lex()
	e = p.parseExpr()
	if p.peek().kind != "eof" {
		p.fail("unexpected %q", p.peek().text)
	}
	return e, nil
}

type parseErr string

func (p *cparser) fail(f string, args ...any) {
	panic(parseErr(fmt.Sprintf(f, args...)))
}

func (p *cparser) lex() {
	s := p.src
	i := 0
	for i < len(s) {
		c := s[i]
		switch {
		case c == ' ' || c == '\t' || c == '\n' || c == '\r':
			i++
		case c >= '0' && c <= '9':
			j := i
			for j < len(s) && (s[j] >= '0' && s[j] <= '9' || s[j] == 'x' || s[j] == 'X' || s[j] == '_' || (s[j] >= 'a' && s[j] <= 'f') || (s[j] >= 'A' && s[j] <= 'F')) {
				j++
			}
			p.toks = append(p.toks, ctok{"int", s[i:j], i})
			i = j
		case c == '"':
			j := i + 1
			for j < len(s) && s[j] != '"' {
				if s[j] == '\\' {
					j++
				}
				j++
			}
			if j >= len(s) {
				p.fail("unterminated string")
			}
			v, err := strconv.Unquote(s[i : j+1])
			if err != nil {
				p.fail("bad string literal %s", s[i:j+1])
			}
			p.toks = append(p.toks, ctok{"str", v, i})
			i = j + 1
		case c == '\'':
			j := i + 1
			for j < len(s) && s[j] != '\'' {
				if s[j] == '\\' {
					j++
				}
				j++
			}
			if j >= len(s) {
				p.fail("unterminated char")
			}
			v, _, _, err := strconv.UnquoteChar(s[i+1:j], '\'')
			if err != nil {
				p.fail("bad char literal")
			}
			p.toks = append(p.toks, ctok{"int", strconv.Itoa(int(v)), i})
			i = j + 1
		case unicode.IsLetter(rune(c)) || c == '_' || c == '#' || c == '$':
			j := i + 1
			for j < len(s) && (unicode.IsLetter(rune(s[j])) || unicode.IsDigit(rune(s[j])) || s[j] == '_' || s[j] == '$') {
				j++
			}
			p.toks = append(p.toks, ctok{"id", s[i:j], i})
			i = j
		default:
			ops := []string{"<==>", "==>", "::", ":=", "==", "!=", "<=", ">=", "&&", "||", "<<", ">>"}
			matched := false
			for _, op := range ops {
				if strings.HasPrefix(s[i:], op) {
					p.toks = append(p.toks, ctok{"op", op, i})
					i += len(op)
					matched = true
					break
				}
			}
			if !matched {
				if strings.ContainsRune("+-*/%<>!()[].,:?&|", rune(c)) {
					p.toks = append(p.toks, ctok{"op", string(c), i})
					i++
				} else {
					p.fail("unexpected character %q", c)
				}
			}
		}
	}
	p.toks = append(p.toks, ctok{"eof", "", len(s)})
}

func (p *cparser) peek() ctok { return p.toks[p.p] }
func (p *cparser) next() ctok { t := p.toks[p.p]; p.p++; return t }
func (p *cparser) isOp(s string) bool {
	t := p.peek()
	return t.kind == "op" && t.text == s
}
func (p *cparser) accept(s string) bool {
	if p.isOp(s) {
		p.p++
		return true
	}
	return false
}
func (p *cparser) expect(s string) {
	if !p.accept(s) {
		p.fail("expected %q, found %q", s, p.peek().text)
	}
}

func (p *cparser) parseExpr() *CExpr {
	t := p.peek()
	if t.kind == "id" && (t.text == "forall" || t.text == "exists") {
		p.next()
		e := &CExpr{Op: t.text, Pos: t.pos}
		// binders: names , ... type {, names type} ::
		for {
			var names []string
			for {
				n := p.next()
				if n.kind != "id" {
					p.fail("binder name expected")
				}
				names = append(names, n.text)
				if !p.accept(",") {
					break
				}
			}
			typ := p.parseTypeText()
			for _, n := range names {
				e.Binders = append(e.Binders, CBinder{n, typ})
			}
			if p.accept("::") {
				break
			}
			p.expect(",")
		}
		e.Args = []*CExpr{p.parseExpr()}
		return e
	}
	return p.parseIff()
}

// parseTypeText collects tokens up to "::" or "," at depth 0 as a Go type string.
func (p *cparser) parseTypeText() string {
	var b strings.Builder
	depth := 0
	for {
		t := p.peek()
		if t.kind == "eof" {
			p.fail("type: unexpected end")
		}
		if depth == 0 && t.kind == "op" && (t.text == "::" || t.text == ",") {
			break
		}
		if t.kind == "op" && (t.text == "[" || t.text == "(") {
			depth++
		}
		if t.kind == "op" && (t.text == "]" || t.text == ")") {
			depth--
		}
		b.WriteString(t.text)
		p.next()
	}
	return b.String()
}

func (p *cparser) parseIff() *CExpr {
	l := p.parseImp()
	for p.isOp("<==>") {
		t := p.next()
		r := p.parseImp()
		l = &CExpr{Op: "bin", Name: "<==>", Args: []*CExpr{l, r}, Pos: t.pos}
	}
	return l
}

func (p *cparser) parseImp() *CExpr {
	l := p.parseTern()
	if p.isOp("==>") {
		t := p.next()
		var r *CExpr
		if pk := p.peek(); pk.kind == "id" && (pk.text == "forall" || pk.text == "exists") {
			r = p.parseExpr()
		} else {
			r = p.parseImp()
		}
		return &CExpr{Op: "bin", Name: "==>", Args: []*CExpr{l, r}, Pos: t.pos}
	}
	return l
}

func (p *cparser) parseTern() *CExpr {
	c := p.parseOr()
	if p.isOp("?") {
		t := p.next()
		a := p.parseTern()
		p.expect(":")
		b := p.parseTern()
		return &CExpr{Op: "ite", Args: []*CExpr{c, a, b}, Pos: t.pos}
	}
	return c
}

func (p *cparser) parseOr() *CExpr {
	l := p.parseAnd()
	for p.isOp("||") {
		t := p.next()
		r := p.parseAnd()
		l = &CExpr{Op: "bin", Name: "||", Args: []*CExpr{l, r}, Pos: t.pos}
	}
	return l
}

func (p *cparser) parseAnd() *CExpr {
	l := p.parseCmp()
	for p.isOp("&&") {
		t := p.next()
		var r *CExpr
		if pk := p.peek(); pk.kind == "id" && (pk.text == "forall" || pk.text == "exists") {
			r = p.parseExpr()
		} else {
			r = p.parseCmp()
		}
		l = &CExpr{Op: "bin", Name: "&&", Args: []*CExpr{l, r}, Pos: t.pos}
	}
	return l
}

func (p *cparser) parseCmp() *CExpr {
	l := p.parseAdd()
	for _, op := range []string{"==", "!=", "<=", ">=", "<", ">"} {
		if p.isOp(op) {
			t := p.next()
			r := p.parseAdd()
			return &CExpr{Op: "bin", Name: op, Args: []*CExpr{l, r}, Pos: t.pos}
		}
	}
	return l
}

func (p *cparser) parseAdd() *CExpr {
	l := p.parseMul()
	for p.isOp("+") || p.isOp("-") {
		t := p.next()
		r := p.parseMul()
		l = &CExpr{Op: "bin", Name: t.text, Args: []*CExpr{l, r}, Pos: t.pos}
	}
	return l
}

func (p *cparser) parseMul() *CExpr {
	l := p.parseUnary()
	for p.isOp("*") || p.isOp("/") || p.isOp("%") || p.isOp("&") || p.isOp("<<") || p.isOp(">>") {
		t := p.next()
		r := p.parseUnary()
		l = &CExpr{Op: "bin", Name: t.text, Args: []*CExpr{l, r}, Pos: t.pos}
	}
	return l
}

func (p *cparser) parseUnary() *CExpr {
	if p.isOp("!") || p.isOp("-") || p.isOp("*") {
		t := p.next()
		x := p.parseUnary()
		return &CExpr{Op: "un", Name: t.text, Args: []*CExpr{x}, Pos: t.pos}
	}
	return p.parsePostfix()
}

func (p *cparser) parsePostfix() *CExpr {
	e := p.parsePrimary()
	for {
		switch {
		case p.isOp("."):
			t := p.next()
			n := p.next()
			if n.kind != "id" {
				p.fail("selector expected")
			}
			e = &CExpr{Op: "sel", Name: n.text, Args: []*CExpr{e}, Pos: t.pos}
		case p.isOp("["):
			t := p.next()
			var lo, hi *CExpr
			if p.isOp(":") {
				p.next()
				if !p.isOp("]") {
					hi = p.parseExpr()
				}
				p.expect("]")
				e = &CExpr{Op: "slice", Args: []*CExpr{e, nil, hi}, Pos: t.pos}
				continue
			}
			lo = p.parseExpr()
			if p.accept(":=") {
				v := p.parseExpr()
				p.expect("]")
				e = &CExpr{Op: "update", Args: []*CExpr{e, lo, v}, Pos: t.pos}
				continue
			}
			if p.accept(":") {
				if !p.isOp("]") {
					hi = p.parseExpr()
				}
				p.expect("]")
				e = &CExpr{Op: "slice", Args: []*CExpr{e, lo, hi}, Pos: t.pos}
				continue
			}
			p.expect("]")
			e = &CExpr{Op: "index", Args: []*CExpr{e, lo}, Pos: t.pos}
		case p.isOp("("):
			// call: callee must be an identifier (possibly pkg-qualified via sel)
			t := p.next()
			var args []*CExpr
			if !p.isOp(")") {
				for {
					args = append(args, p.parseExpr())
					if !p.accept(",") {
						break
					}
				}
			}
			p.expect(")")
			name := ""
			switch e.Op {
			case "id":
				name = e.Name
			case "sel":
				// method-style call x.f(args) => f(x, args) ; pkg.f(args) resolved later
				name = "." + e.Name
				args = append([]*CExpr{e.Args[0]}, args...)
			default:
				p.fail("cannot call %s", e.String())
			}
			if name == "old" {
				if len(args) != 1 {
					p.fail("old takes one argument")
				}
				e = &CExpr{Op: "old", Args: args, Pos: t.pos}
			} else {
				e = &CExpr{Op: "call", Name: name, Args: args, Pos: t.pos}
			}
		default:
			return e
		}
	}
}

// parseTypeName reads a Go type: T, pkg.T, *T, []T, map[K]V.
func (p *cparser) parseTypeName() string {
	t := p.next()
	switch {
	case t.kind == "op" && t.text == "*":
		return "*" + p.parseTypeName()
	case t.kind == "op" && t.text == "[":
		p.expect("]")
		return "[]" + p.parseTypeName()
	case t.kind == "id" && t.text == "map":
		p.expect("[")
		k := p.parseTypeName()
		p.expect("]")
		return "map[" + k + "]" + p.parseTypeName()
	case t.kind == "id":
		name := t.text
		for p.peek().kind == "op" && p.peek().text == "." {
			p.next()
			name += "." + p.next().text
		}
		return name
	}
	p.fail("type expected, found %q", t.text)
	return ""
}

func (p *cparser) parsePrimary() *CExpr {
	t := p.next()
	switch t.kind {
	case "int":
		s := strings.ReplaceAll(t.text, "_", "")
		v, err := strconv.ParseInt(s, 0, 64)
		if err != nil {
			u, err2 := strconv.ParseUint(s, 0, 64)
			if err2 != nil {
				p.fail("bad integer %s", t.text)
			}
			return &CExpr{Op: "lit-int", Int: strconv.FormatUint(u, 10), Pos: t.pos}
		}
		return &CExpr{Op: "lit-int", Int: strconv.FormatInt(v, 10), Pos: t.pos}
	case "str":
		return &CExpr{Op: "lit-str", Str: t.text, Pos: t.pos}
	case "id":
		switch t.text {
		case "true", "false":
			return &CExpr{Op: "lit-bool", Name: t.text, Pos: t.pos}
		case "nil":
			return &CExpr{Op: "nil", Name: "nil", Pos: t.pos}
		case "map":
			// a map type used as an argument of typeis/unbox: map[K]V
			if p.peek().kind == "op" && p.peek().text == "[" {
				p.next()
				k := p.parseTypeName()
				p.expect("]")
				v := p.parseTypeName()
				return &CExpr{Op: "id", Name: "map[" + k + "]" + v, Pos: t.pos}
			}
		}
		return &CExpr{Op: "id", Name: t.text, Pos: t.pos}
	case "op":
		if t.text == "(" {
			e := p.parseExpr()
			p.expect(")")
			return e
		}
		if t.text == "[" && p.peek().kind == "op" && p.peek().text == "]" {
			// a slice type used as an argument of typeis/unbox/zero: []T, []*T, []pkg.T
			p.next()
			name := "[]"
			for p.peek().kind == "op" && p.peek().text == "*" {
				p.next()
				name += "*"
			}
			id := p.next()
			if id.kind != "id" {
				p.fail("type name expected after []")
			}
			name += id.text
			for p.peek().kind == "op" && p.peek().text == "." {
				p.next()
				name += "." + p.next().text
			}
			return &CExpr{Op: "id", Name: name, Pos: t.pos}
		}
	}
	p.fail("unexpected %q", t.text)
	return nil
}
