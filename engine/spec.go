package main

import (
	"fmt"
	"go/constant"
	"go/types"
	"math/big"
	"os"
	"sort"
	"strconv"
	"strings"

	"golang.org/x/tools/go/ssa"
)

// SVal is a translated contract expression.
type SVal struct {
	ElemTyp types.Type // for ghost arrays: Go type of the stored values
	T       string
	Typ     types.Type // may be nil for pure ghost values
	Sort    string
}

type specSig struct {
	fn     *SpecFn
	smt    string
	params []SVal
	ret    types.Type
	retS   string
	reads  []string // component names read (sorted)
	body   string
	state  int // 0 new, 1 in progress, 2 done
	calls  map[string]bool
}

type SpecEnv struct {
	e          *Enc
	fr         *frame
	st         *bstate
	heap       map[string]string
	oldHeap    map[string]string
	heapFn     func(c *Comp, old bool) string // overrides heap lookup (spec function bodies)
	binders    map[string]SVal
	results    []Val
	callParams map[string]Val
	callSig    *types.Signature
	entryOnly  bool
	block      *ssa.BasicBlock
	idx        int
	subst      map[ssa.Value]ssa.Value
	pkg        *types.Package
	inOld      bool
	curSpec    *specSig
	loop       *loopInfo
	callSite   bool              // evaluating a callee's contract at a call site
	arb        map[string]string // arbitrary heap standing for the callee's lock-time state
}

func (e *Enc) newSpecEnv(fr *frame, st *bstate) *SpecEnv {
	env := &SpecEnv{e: e, fr: fr, st: st, binders: map[string]SVal{}}
	if st != nil {
		env.heap = st.heap
	}
	if fr != nil {
		env.oldHeap = fr.heap0
		env.pkg = funcPkg(fr.fn)
	}
	return env
}

func (env *SpecEnv) clone() *SpecEnv {
	n := *env
	n.binders = map[string]SVal{}
	for k, v := range env.binders {
		n.binders[k] = v
	}
	return &n
}

func (env *SpecEnv) heapOf(c *Comp) string {
	if env.heapFn != nil {
		return env.heapFn(c, env.inOld)
	}
	h := env.heap
	if env.inOld {
		h = env.oldHeap
	}
	if v, ok := h[c.Name]; ok {
		return v
	}
	return c.Name + "@0"
}

func (env *SpecEnv) formula(x *CExpr) (string, error) {
	v, err := env.tr(x)
	if err != nil {
		return "", err
	}
	if v.Sort != "Bool" {
		return "", fmt.Errorf("expression %s is not boolean (sort %s)", x, v.Sort)
	}
	return v.T, nil
}

func (env *SpecEnv) fromVal(v Val) (SVal, error) {
	if v.Loc != nil {
		// address of a variable: read its current value
		t := env.loadLocSpec(v.Loc)
		return SVal{T: t, Typ: v.Loc.Typ, Sort: env.e.W.sortOf(v.Loc.Typ)}, nil
	}
	if v.Tup != nil {
		return SVal{}, fmt.Errorf("tuple value used in expression")
	}
	return SVal{T: v.T, Typ: v.Typ, Sort: env.e.W.sortOf(v.Typ)}, nil
}

func (env *SpecEnv) loadLocSpec(l *Loc) string {
	t := selN(env.heapOf(l.Comp), l.Idx)
	for _, p := range l.Path {
		t = app(p.si.Fields[p.field], t)
	}
	return t
}

// loadStructSpec builds the value of the struct stored at ref in the environment's heap.
func (env *SpecEnv) loadStructSpec(ref string, t types.Type) string {
	e := env.e
	si := e.W.structInfo(t)
	var fs []string
	for i := 0; i < si.St.NumFields(); i++ {
		ft := si.St.Field(i).Type()
		if e.W.structInfo(ft) != nil {
			fs = append(fs, env.loadStructSpec(e.subRef(t, i, ref), ft))
			continue
		}
		fs = append(fs, app("select", env.heapOf(e.W.fieldComp(si.Type, i)), ref))
	}
	return e.W.mkStruct(si, fs)
}

func (env *SpecEnv) lookupIdent(name string) (SVal, error) {
	e := env.e
	if v, ok := env.binders[name]; ok {
		return v, nil
	}
	if v, ok := e.snaps[name]; ok {
		return v, nil
	}
	if env.results != nil {
		if name == "result" && len(env.results) >= 1 {
			return env.fromVal(env.results[0])
		}
		if strings.HasPrefix(name, "result_") {
			var i int
			if _, err := fmt.Sscanf(name, "result_%d", &i); err == nil && i < len(env.results) {
				return env.fromVal(env.results[i])
			}
		}
		var sig *types.Signature
		if env.callSig != nil {
			sig = env.callSig
		} else if env.fr != nil {
			sig = env.fr.fn.Signature
		}
		if sig != nil {
			for i := 0; i < sig.Results().Len(); i++ {
				if sig.Results().At(i).Name() == name && i < len(env.results) {
					return env.fromVal(env.results[i])
				}
			}
		}
	}
	if env.callParams != nil {
		if v, ok := env.callParams[name]; ok {
			return env.fromVal(v)
		}
	} else if env.fr != nil {
		if !env.entryOnly && !env.inOld && env.block != nil {
			if sv, isAddr, ok := env.fr.lookupName(name, env.block, env.idx); ok {
				if os.Getenv("VERIF_DEBUG") == "2" {
					fmt.Fprintf(os.Stderr, "DEBUG lookup %s at b%d/%d -> %s (%T) addr=%v val=%+v\n", name, env.block.Index, env.idx, sv.Name(), sv, isAddr, e.val(sv))
				}
				if env.subst != nil {
					if r, ok := env.subst[sv]; ok {
						sv = r
					}
				}
				v := e.val(sv)
				if isAddr {
					pt := sv.Type().Underlying().(*types.Pointer).Elem()
					if v.Loc != nil {
						return SVal{T: env.loadLocSpec(v.Loc), Typ: pt, Sort: e.W.sortOf(pt)}, nil
					}
					if e.W.structInfo(pt) != nil {
						return SVal{T: v.T, Typ: sv.Type(), Sort: "Int"}, nil
					}
					return SVal{T: app("select", env.heapOf(e.W.cellComp(pt)), v.T), Typ: pt, Sort: e.W.sortOf(pt)}, nil
				}
				return env.fromVal(v)
			}
		} else {
			for _, p := range env.fr.fn.Params {
				if p.Name() == name {
					return env.fromVal(e.val(p))
				}
			}
			for _, p := range env.fr.fn.FreeVars {
				if p.Name() == name {
					v := e.val(p)
					if pt, ok := p.Type().(*types.Pointer); ok && v.Loc == nil && e.W.structInfo(pt.Elem()) == nil {
						return SVal{T: app("select", env.heapOf(e.W.cellComp(pt.Elem())), v.T), Typ: pt.Elem(), Sort: e.W.sortOf(pt.Elem())}, nil
					}
					return env.fromVal(v)
				}
			}
		}
	}
	if env.loop != nil && (name == "rangepos" || name == "rangelen") {
		rm := e.rangeFor(env)
		if rm == nil {
			return SVal{}, fmt.Errorf("%s: loop does not iterate a map with the exact enumeration model", name)
		}
		if name == "rangelen" {
			return SVal{T: app(rm.rn, rm.it), Typ: types.Typ[types.Int], Sort: "Int"}, nil
		}
		return SVal{T: app("select", env.heapOf(e.iterComp()), rm.it), Typ: types.Typ[types.Int], Sort: "Int"}, nil
	}
	if g, ok := e.P.reg.Ghosts[name]; ok {
		c := e.ghostComp(g)
		vt, _ := e.evalType(g.ValType, e.P.tpkgs[g.Pkg])
		return SVal{T: env.heapOf(c), Sort: c.Sort, ElemTyp: vt}, nil
	}
	if name == "alloc" {
		return SVal{T: env.heapOf(e.allocComp()), Sort: "Int"}, nil
	}
	// package-level constant or variable
	if env.pkg != nil {
		if obj := env.pkg.Scope().Lookup(name); obj != nil {
			return env.fromObject(obj)
		}
	}
	if obj := types.Universe.Lookup(name); obj != nil {
		if c, ok := obj.(*types.Const); ok {
			return env.fromObject(c)
		}
	}
	return SVal{}, fmt.Errorf("unknown identifier %q", name)
}

func (env *SpecEnv) fromObject(obj types.Object) (SVal, error) {
	e := env.e
	switch o := obj.(type) {
	case *types.Const:
		t := o.Type()
		switch o.Val().Kind() {
		case constant.Bool:
			return SVal{T: fmt.Sprint(constant.BoolVal(o.Val())), Typ: t, Sort: "Bool"}, nil
		case constant.String:
			return SVal{T: e.W.strLit(constant.StringVal(o.Val())), Typ: t, Sort: "Str"}, nil
		case constant.Int:
			n, _ := new(big.Int).SetString(o.Val().ExactString(), 10)
			return SVal{T: bigLit(n), Typ: t, Sort: "Int"}, nil
		}
	case *types.Var:
		name := "GV!" + sanitize(o.Pkg().Name()+"."+o.Name())
		c := e.W.comp(name, e.W.sortOf(o.Type()), globalKind(o.Pkg()))
		return SVal{T: env.heapOf(c), Typ: o.Type(), Sort: e.W.sortOf(o.Type())}, nil
	}
	return SVal{}, fmt.Errorf("unsupported object %s", obj)
}

func (env *SpecEnv) findImport(name string) *types.Package {
	if env.pkg != nil {
		for _, imp := range env.pkg.Imports() {
			if imp.Name() == name {
				return imp
			}
		}
	}
	// fall back: any loaded package with that name (unique)
	var found *types.Package
	for _, p := range env.e.P.tpkgs {
		if p.Name() == name {
			if found != nil && found != p {
				return nil
			}
			found = p
		}
	}
	return found
}

func (env *SpecEnv) tr(x *CExpr) (SVal, error) {
	e := env.e
	W := e.W
	switch x.Op {
	case "lit-int":
		n, _ := new(big.Int).SetString(x.Int, 10)
		return SVal{T: bigLit(n), Typ: types.Typ[types.Int], Sort: "Int"}, nil
	case "lit-str":
		return SVal{T: W.strLit(x.Str), Typ: types.Typ[types.String], Sort: "Str"}, nil
	case "lit-bool":
		return SVal{T: x.Name, Typ: types.Typ[types.Bool], Sort: "Bool"}, nil
	case "nil":
		return SVal{T: "0", Typ: types.Typ[types.UntypedNil], Sort: "nil"}, nil
	case "id":
		return env.lookupIdent(x.Name)
	case "old":
		n := *env
		n.inOld = true
		return (&n).tr(x.Args[0])
	case "sel":
		// package-qualified name?
		if x.Args[0].Op == "id" {
			if _, err := env.lookupIdent(x.Args[0].Name); err != nil {
				if p := env.findImport(x.Args[0].Name); p != nil {
					if obj := p.Scope().Lookup(x.Name); obj != nil {
						return env.fromObject(obj)
					}
					return SVal{}, fmt.Errorf("no %s in package %s", x.Name, p.Path())
				}
			}
		}
		b, err := env.tr(x.Args[0])
		if err != nil {
			return SVal{}, err
		}
		return env.selectField(b, x.Name)
	case "index":
		b, err := env.tr(x.Args[0])
		if err != nil {
			return SVal{}, err
		}
		i, err := env.tr(x.Args[1])
		if err != nil {
			return SVal{}, err
		}
		return env.index(b, i)
	case "update":
		b, err := env.tr(x.Args[0])
		if err != nil {
			return SVal{}, err
		}
		k, err := env.tr(x.Args[1])
		if err != nil {
			return SVal{}, err
		}
		v, err := env.tr(x.Args[2])
		if err != nil {
			return SVal{}, err
		}
		if !strings.HasPrefix(b.Sort, "(Array ") {
			return SVal{}, fmt.Errorf("update of non-array %s", x.Args[0])
		}
		if v.Sort == "nil" {
			v = env.nilOf(SVal{Sort: arrayRange(b.Sort)})
		}
		return SVal{T: app("store", b.T, k.T, v.T), Typ: b.Typ, Sort: b.Sort, ElemTyp: b.ElemTyp}, nil
	case "slice":
		// slicing a local array variable (its address is the base of the backing array)
		if id := x.Args[0]; id.Op == "id" && env.fr != nil && env.block != nil && !env.entryOnly && !env.inOld {
			if sv, isAddr, ok := env.fr.lookupName(id.Name, env.block, env.idx); ok && isAddr {
				if pt, ok := sv.Type().Underlying().(*types.Pointer); ok {
					if at, ok := pt.Elem().Underlying().(*types.Array); ok && e.val(sv).Loc == nil {
						lo, hi := "0", fmt.Sprint(at.Len())
						if x.Args[1] != nil {
							l, err := env.tr(x.Args[1])
							if err != nil {
								return SVal{}, err
							}
							lo = l.T
						}
						if x.Args[2] != nil {
							h, err := env.tr(x.Args[2])
							if err != nil {
								return SVal{}, err
							}
							hi = h.T
						}
						return SVal{T: app("mk-slice", e.val(sv).T, lo, app("-", hi, lo), app("-", fmt.Sprint(at.Len()), lo)), Typ: types.NewSlice(at.Elem()), Sort: "Slice"}, nil
					}
				}
			}
		}
		b, err := env.tr(x.Args[0])
		if err != nil {
			return SVal{}, err
		}
		lo := SVal{T: "0", Sort: "Int"}
		if x.Args[1] != nil {
			if lo, err = env.tr(x.Args[1]); err != nil {
				return SVal{}, err
			}
		}
		if isView(b.Sort) {
			hi := app("svlen!"+b.Sort, b.T)
			if x.Args[2] != nil {
				h, err := env.tr(x.Args[2])
				if err != nil {
					return SVal{}, err
				}
				hi = h.T
			}
			return SVal{T: app("mk!"+b.Sort, app("svarr!"+b.Sort, b.T), app("+", app("svoff!"+b.Sort, b.T), lo.T), app("-", hi, lo.T)), Typ: b.Typ, Sort: b.Sort}, nil
		}
		switch b.Sort {
		case "Str":
			hi := app("slen", b.T)
			if x.Args[2] != nil {
				h, err := env.tr(x.Args[2])
				if err != nil {
					return SVal{}, err
				}
				hi = h.T
			}
			return SVal{T: app("ssub", b.T, lo.T, hi), Typ: b.Typ, Sort: "Str"}, nil
		case "Slice":
			hi := app("slength", b.T)
			if x.Args[2] != nil {
				h, err := env.tr(x.Args[2])
				if err != nil {
					return SVal{}, err
				}
				hi = h.T
			}
			return SVal{T: app("mk-slice", app("sbase", b.T), app("+", app("soff", b.T), lo.T), app("-", hi, lo.T), app("-", app("scap", b.T), lo.T)), Typ: b.Typ, Sort: "Slice"}, nil
		}
		return SVal{}, fmt.Errorf("cannot slice %s", x.Args[0])
	case "un":
		a, err := env.tr(x.Args[0])
		if err != nil {
			return SVal{}, err
		}
		switch x.Name {
		case "!":
			return SVal{T: sNot(a.T), Typ: a.Typ, Sort: "Bool"}, nil
		case "-":
			return SVal{T: app("-", a.T), Typ: a.Typ, Sort: a.Sort}, nil
		case "*": // dereference of a pointer to a non-struct value
			if a.Typ != nil {
				if pt, ok := a.Typ.Underlying().(*types.Pointer); ok && e.W.structInfo(pt.Elem()) == nil {
					return SVal{T: app("select", env.heapOf(W.cellComp(pt.Elem())), a.T), Typ: pt.Elem(), Sort: W.sortOf(pt.Elem())}, nil
				}
			}
			return SVal{}, fmt.Errorf("cannot dereference %s", x.Args[0])
		}
	case "ite":
		c, err := env.formula(x.Args[0])
		if err != nil {
			return SVal{}, err
		}
		a, err := env.tr(x.Args[1])
		if err != nil {
			return SVal{}, err
		}
		b, err := env.tr(x.Args[2])
		if err != nil {
			return SVal{}, err
		}
		a, b = env.unifyNil(a, b)
		return SVal{T: sIte(c, a.T, b.T), Typ: a.Typ, Sort: a.Sort}, nil
	case "bin":
		return env.binop(x)
	case "forall", "exists":
		n := env.clone()
		var bs []string
		var guards []string
		for _, b := range x.Binders {
			t, err := e.evalType(b.Type, env.pkg)
			if err != nil {
				return SVal{}, fmt.Errorf("binder %s: %v", b.Name, err)
			}
			srt := e.specSort(t)
			vn := "q!" + sanitize(b.Name)
			n.binders[b.Name] = SVal{T: vn, Typ: t, Sort: srt}
			bs = append(bs, fmt.Sprintf("(%s %s)", vn, srt))
			if bk, ok := t.(*types.Basic); ok && bk.Kind() == types.Uint8 {
				guards = append(guards, sAnd(app("<=", "0", vn), app("<=", vn, "255")))
			}
		}
		body, err := n.formula(x.Args[0])
		if err != nil {
			return SVal{}, err
		}
		if len(guards) > 0 {
			if x.Op == "forall" {
				body = sImp(sAnd(guards...), body)
			} else {
				body = sAnd(append(guards, body)...)
			}
		}
		return SVal{T: fmt.Sprintf("(%s (%s) %s)", x.Op, strings.Join(bs, " "), body), Typ: types.Typ[types.Bool], Sort: "Bool"}, nil
	case "call":
		return env.call(x)
	}
	return SVal{}, fmt.Errorf("cannot translate %s", x)
}

// Slice "views": inside specifications a slice is its content, the triple
// (backing array, offset, length); spec functions therefore do not depend on the
// element heap and are extensional in the array.
func (e *Enc) viewSort(el types.Type) string {
	es := e.W.sortOf(el)
	n := "SV!" + sanitize(es)
	e.W.declare(n, fmt.Sprintf("(declare-datatypes ((%s 0)) (((mk!%s (svarr!%s (Array Int %s)) (svoff!%s Int) (svlen!%s Int)))))", n, n, n, es, n, n))
	return n
}

func isView(sort string) bool { return strings.HasPrefix(sort, "SV!") }

// specSort: the sort used for a Go type inside specifications.
func (e *Enc) specSort(t types.Type) string {
	if sl, ok := types.Unalias(t).Underlying().(*types.Slice); ok {
		return e.viewSort(sl.Elem())
	}
	return e.W.sortOf(t)
}

func (env *SpecEnv) toView(a SVal) (SVal, error) {
	if isView(a.Sort) {
		return a, nil
	}
	if a.Sort != "Slice" || a.Typ == nil {
		return SVal{}, fmt.Errorf("cannot view value of sort %s as a sequence", a.Sort)
	}
	el := a.Typ.Underlying().(*types.Slice).Elem()
	vs := env.e.viewSort(el)
	c := env.e.W.elemComp(el)
	return SVal{T: app("mk!"+vs, app("select", env.heapOf(c), app("sbase", a.T)), app("soff", a.T), app("slength", a.T)), Typ: a.Typ, Sort: vs}, nil
}

func (env *SpecEnv) unifyNil(a, b SVal) (SVal, SVal) {
	if isView(a.Sort) && b.Sort == "Slice" {
		if v, err := env.toView(b); err == nil {
			b = v
		}
	}
	if isView(b.Sort) && a.Sort == "Slice" {
		if v, err := env.toView(a); err == nil {
			a = v
		}
	}
	if a.Sort == "nil" && b.Sort != "nil" {
		a = env.nilOf(b)
	}
	if b.Sort == "nil" && a.Sort != "nil" {
		b = env.nilOf(a)
	}
	if a.Sort == "nil" && b.Sort == "nil" {
		a.Sort, b.Sort = "Int", "Int"
	}
	return a, b
}

func (env *SpecEnv) nilOf(like SVal) SVal {
	switch like.Sort {
	case "Slice":
		return SVal{T: "nilslice", Typ: like.Typ, Sort: "Slice"}
	case "Iface":
		return SVal{T: "nil!iface", Typ: like.Typ, Sort: "Iface"}
	}
	return SVal{T: "0", Typ: like.Typ, Sort: like.Sort}
}

func (env *SpecEnv) binop(x *CExpr) (SVal, error) {
	boolT := types.Typ[types.Bool]
	switch x.Name {
	case "&&", "||", "==>", "<==>":
		a, err := env.formula(x.Args[0])
		if err != nil {
			return SVal{}, err
		}
		b, err := env.formula(x.Args[1])
		if err != nil {
			return SVal{}, err
		}
		var t string
		switch x.Name {
		case "&&":
			t = sAnd(a, b)
		case "||":
			t = sOr(a, b)
		case "==>":
			t = sImp(a, b)
		default:
			t = sEq(a, b)
		}
		return SVal{T: t, Typ: boolT, Sort: "Bool"}, nil
	}
	a, err := env.tr(x.Args[0])
	if err != nil {
		return SVal{}, err
	}
	b, err := env.tr(x.Args[1])
	if err != nil {
		return SVal{}, err
	}
	switch x.Name {
	case "==", "!=":
		a, b = env.unifyNil(a, b)
		if a.Sort != b.Sort {
			return SVal{}, fmt.Errorf("comparing %s (%s) with %s (%s)", x.Args[0], a.Sort, x.Args[1], b.Sort)
		}
		t := sEq(a.T, b.T)
		if a.Sort == "Slice" && (a.T == "nilslice" || b.T == "nilslice") {
			o := a
			if a.T == "nilslice" {
				o = b
			}
			t = sEq(app("sbase", o.T), "0")
		}
		if x.Name == "!=" {
			t = sNot(t)
		}
		return SVal{T: t, Typ: boolT, Sort: "Bool"}, nil
	case "<", "<=", ">", ">=":
		if a.Sort == "Str" {
			var t string
			switch x.Name {
			case "<":
				t = app("slt", a.T, b.T)
			case ">":
				t = app("slt", b.T, a.T)
			case "<=":
				t = sNot(app("slt", b.T, a.T))
			default:
				t = sNot(app("slt", a.T, b.T))
			}
			return SVal{T: t, Typ: boolT, Sort: "Bool"}, nil
		}
		return SVal{T: app(x.Name, a.T, b.T), Typ: boolT, Sort: "Bool"}, nil
	case "+":
		if a.Sort == "Str" {
			return SVal{T: app("sconcat", a.T, b.T), Typ: a.Typ, Sort: "Str"}, nil
		}
		return SVal{T: app("+", a.T, b.T), Typ: a.Typ, Sort: a.Sort}, nil
	case "-", "*":
		return SVal{T: app(x.Name, a.T, b.T), Typ: a.Typ, Sort: a.Sort}, nil
	case "/":
		return SVal{T: app("div", a.T, b.T), Typ: a.Typ, Sort: a.Sort}, nil
	case "%":
		return SVal{T: app("mod", a.T, b.T), Typ: a.Typ, Sort: a.Sort}, nil
	case "&":
		if x.Args[1].Op == "lit-int" {
			n, _ := new(big.Int).SetString(x.Args[1].Int, 10)
			return SVal{T: andConst(a.T, n.Int64(), nil), Typ: a.Typ, Sort: "Int"}, nil
		}
		return SVal{T: app("bitand", a.T, b.T), Typ: a.Typ, Sort: "Int"}, nil
	case ">>":
		if x.Args[1].Op == "lit-int" {
			n, _ := new(big.Int).SetString(x.Args[1].Int, 10)
			return SVal{T: app("div", a.T, pow2(int(n.Int64()))), Typ: a.Typ, Sort: "Int"}, nil
		}
	case "<<":
		if x.Args[1].Op == "lit-int" {
			n, _ := new(big.Int).SetString(x.Args[1].Int, 10)
			return SVal{T: app("*", a.T, pow2(int(n.Int64()))), Typ: a.Typ, Sort: "Int"}, nil
		}
	}
	return SVal{}, fmt.Errorf("unsupported operator %s", x.Name)
}

func derefStruct(t types.Type) (types.Type, bool) {
	if t == nil {
		return nil, false
	}
	if p, ok := types.Unalias(t).Underlying().(*types.Pointer); ok {
		return p.Elem(), true
	}
	return t, false
}

func (env *SpecEnv) selectField(b SVal, name string) (SVal, error) {
	e := env.e
	W := e.W
	if b.Typ == nil {
		return SVal{}, fmt.Errorf("selector .%s on untyped ghost value", name)
	}
	st, isPtr := derefStruct(b.Typ)
	si := W.structInfo(st)
	if si == nil {
		return SVal{}, fmt.Errorf("selector .%s on non-struct type %s", name, b.Typ)
	}
	for i := 0; i < si.St.NumFields(); i++ {
		f := si.St.Field(i)
		if f.Name() != name {
			continue
		}
		ft := f.Type()
		if isPtr {
			if W.structInfo(ft) != nil {
				return SVal{T: e.subRef(st, i, b.T), Typ: types.NewPointer(ft), Sort: "Int"}, nil
			}
			return SVal{T: app("select", env.heapOf(W.fieldComp(si.Type, i)), b.T), Typ: ft, Sort: W.sortOf(ft)}, nil
		}
		return SVal{T: app(si.Fields[i], b.T), Typ: ft, Sort: W.sortOf(ft)}, nil
	}
	// promoted through embedded fields
	for i := 0; i < si.St.NumFields(); i++ {
		f := si.St.Field(i)
		if f.Embedded() {
			inner, err := env.selectField(b, f.Name())
			if err == nil {
				if r, err2 := env.selectField(inner, name); err2 == nil {
					return r, nil
				}
			}
		}
	}
	return SVal{}, fmt.Errorf("type %s has no field %s", st, name)
}

func (env *SpecEnv) index(b, i SVal) (SVal, error) {
	e := env.e
	W := e.W
	if isView(b.Sort) {
		el := b.Typ.Underlying().(*types.Slice).Elem()
		return SVal{T: app("select", app("svarr!"+b.Sort, b.T), app("idx", app("svoff!"+b.Sort, b.T), i.T)), Typ: el, Sort: W.sortOf(el)}, nil
	}
	switch b.Sort {
	case "Str":
		return SVal{T: app("sat", b.T, i.T), Typ: types.Typ[types.Uint8], Sort: "Int"}, nil
	case "Slice":
		if b.Typ == nil {
			return SVal{}, fmt.Errorf("indexing untyped slice")
		}
		el := b.Typ.Underlying().(*types.Slice).Elem()
		c := W.elemComp(el)
		return SVal{T: app("select", app("select", env.heapOf(c), app("sbase", b.T)), app("idx", app("soff", b.T), i.T)), Typ: el, Sort: W.sortOf(el)}, nil
	}
	if b.Typ != nil {
		switch t := b.Typ.Underlying().(type) {
		case *types.Map:
			d, v, _ := W.mapComps(t)
			in := sAnd(sNot(sEq(b.T, "0")), app("select", app("select", env.heapOf(d), b.T), i.T))
			return SVal{T: sIte(in, app("select", app("select", env.heapOf(v), b.T), i.T), W.zero(t.Elem())), Typ: t.Elem(), Sort: W.sortOf(t.Elem())}, nil
		case *types.Array:
			return SVal{T: app("select", b.T, i.T), Typ: t.Elem(), Sort: W.sortOf(t.Elem())}, nil
		}
	}
	if strings.HasPrefix(b.Sort, "(Array ") {
		// ghost component / raw array
		rs := arrayRange(b.Sort)
		return SVal{T: app("select", b.T, i.T), Sort: rs, Typ: b.ElemTyp}, nil
	}
	return SVal{}, fmt.Errorf("cannot index value of sort %s", b.Sort)
}

// arrayRange extracts the range sort of "(Array K V)".
func arrayRange(s string) string {
	inner := strings.TrimSuffix(strings.TrimPrefix(s, "(Array "), ")")
	depth := 0
	for i := 0; i < len(inner); i++ {
		switch inner[i] {
		case '(':
			depth++
		case ')':
			depth--
		case ' ':
			if depth == 0 {
				return inner[i+1:]
			}
		}
	}
	return "Int"
}

func (env *SpecEnv) call(x *CExpr) (SVal, error) {
	e := env.e
	W := e.W
	boolT := types.Typ[types.Bool]
	intT := types.Typ[types.Int]
	argv := func(i int) (SVal, error) { return env.tr(x.Args[i]) }
	switch x.Name {
	case "len":
		a, err := argv(0)
		if err != nil {
			return SVal{}, err
		}
		if isView(a.Sort) {
			return SVal{T: app("svlen!"+a.Sort, a.T), Typ: intT, Sort: "Int"}, nil
		}
		switch a.Sort {
		case "Str":
			return SVal{T: app("slen", a.T), Typ: intT, Sort: "Int"}, nil
		case "Slice":
			return SVal{T: app("slength", a.T), Typ: intT, Sort: "Int"}, nil
		}
		if a.Typ != nil {
			if mt, ok := a.Typ.Underlying().(*types.Map); ok {
				_, _, l := W.mapComps(mt)
				return SVal{T: sIte(sEq(a.T, "0"), "0", app("select", env.heapOf(l), a.T)), Typ: intT, Sort: "Int"}, nil
			}
		}
		return SVal{}, fmt.Errorf("len of %s", a.Sort)
	case "cap":
		a, err := argv(0)
		if err != nil {
			return SVal{}, err
		}
		return SVal{T: app("scap", a.T), Typ: intT, Sort: "Int"}, nil
	case "has": // has(m, k): key k present in map m
		m, err := argv(0)
		if err != nil {
			return SVal{}, err
		}
		k, err := argv(1)
		if err != nil {
			return SVal{}, err
		}
		mt, ok := m.Typ.Underlying().(*types.Map)
		if !ok {
			return SVal{}, fmt.Errorf("has: not a map")
		}
		d, _, _ := W.mapComps(mt)
		return SVal{T: sAnd(sNot(sEq(m.T, "0")), app("select", app("select", env.heapOf(d), m.T), k.T)), Typ: boolT, Sort: "Bool"}, nil
	case "fresh": // fresh(x): x was allocated after function/call entry
		a, err := argv(0)
		if err != nil {
			return SVal{}, err
		}
		t := a.T
		if a.Sort == "Slice" {
			t = app("sbase", a.T)
		}
		if a.Sort == "Iface" {
			W.declare("iref", "(declare-fun iref (Iface) Int)")
			t = app("iref", a.T)
		}
		oldAlloc := "alloc@0"
		if v, ok := env.oldHeap["alloc"]; ok {
			oldAlloc = v
		}
		W.needRoot()
		return SVal{T: app(">", app("root", t), oldAlloc), Typ: boolT, Sort: "Bool"}, nil
	case "allocated":
		a, err := argv(0)
		if err != nil {
			return SVal{}, err
		}
		t := a.T
		if a.Sort == "Slice" {
			t = app("sbase", a.T)
		}
		if a.Sort == "Iface" {
			W.declare("iref", "(declare-fun iref (Iface) Int)")
			t = app("iref", a.T)
		}
		W.needRoot()
		return SVal{T: app("<=", app("root", t), env.heapOf(e.allocComp())), Typ: boolT, Sort: "Bool"}, nil
	case "typeis": // typeis(x, T): dynamic type of interface x is T
		a, err := argv(0)
		if err != nil {
			return SVal{}, err
		}
		t, err := e.evalType(x.Args[1].String(), env.pkg)
		if err != nil {
			return SVal{}, err
		}
		if types.IsInterface(t) {
			// same predicate as an interface-to-interface type assertion in the code
			pn := "implements!" + sanitize(shortTypeName(t))
			W.declare(pn, fmt.Sprintf("(declare-fun %s (Int) Bool)\n(assert (not (%s 0)))", pn, pn))
			return SVal{T: app(pn, app("itag", a.T)), Typ: boolT, Sort: "Bool"}, nil
		}
		return SVal{T: sEq(app("itag", a.T), fmt.Sprint(W.typeTag(t))), Typ: boolT, Sort: "Bool"}, nil
	case "unbox": // unbox(x, T)
		a, err := argv(0)
		if err != nil {
			return SVal{}, err
		}
		t, err := e.evalType(x.Args[1].String(), env.pkg)
		if err != nil {
			return SVal{}, err
		}
		if types.IsInterface(t) {
			// interface-to-interface assertion keeps the dynamic value
			return SVal{T: a.T, Typ: t, Sort: "Iface"}, nil
		}
		_, ub, _ := W.boxFns(t)
		return SVal{T: app(ub, a.T), Typ: t, Sort: W.sortOf(t)}, nil
	case "box": // box(x) for a typed x
		a, err := argv(0)
		if err != nil {
			return SVal{}, err
		}
		if a.Typ == nil {
			return SVal{}, fmt.Errorf("box of untyped value")
		}
		bx, _, _ := W.boxFns(a.Typ)
		return SVal{T: app(bx, a.T), Sort: "Iface"}, nil
	case "rangekey":
		if env.loop == nil {
			return SVal{}, fmt.Errorf("rangekey outside loop invariant")
		}
		rm := e.rangeFor(env)
		if rm == nil {
			return SVal{}, fmt.Errorf("rangekey: loop does not iterate a map with the exact enumeration model")
		}
		a, err := argv(0)
		if err != nil {
			return SVal{}, err
		}
		return SVal{T: app(rm.rk, rm.it, a.T), Typ: rm.mt.Key(), Sort: W.sortOf(rm.mt.Key())}, nil
	case "errorsAs": // errorsAs(err, T): errors.As(err, &target) with target of type T succeeds
		a, err := argv(0)
		if err != nil {
			return SVal{}, err
		}
		t, err := e.evalType(x.Args[1].String(), env.pkg)
		if err != nil {
			return SVal{}, err
		}
		return SVal{T: app(e.errAsPred(t), a.T), Typ: boolT, Sort: "Bool"}, nil
	case "at": // at(o, i) == o + i, written with the uninterpreted idx so that quantified facts about position o+i have a trigger mentioning i
		a, err := argv(0)
		if err != nil {
			return SVal{}, err
		}
		b, err := argv(1)
		if err != nil {
			return SVal{}, err
		}
		return SVal{T: app("idx", a.T, b.T), Typ: intT, Sort: "Int"}, nil
	case "errorsAsVal": // errorsAsVal(err, T): what errors.As stores into a target of type T on success
		a, err := argv(0)
		if err != nil {
			return SVal{}, err
		}
		t, err := e.evalType(x.Args[1].String(), env.pkg)
		if err != nil {
			return SVal{}, err
		}
		return SVal{T: app(e.errAsVal(t), a.T), Typ: t, Sort: W.sortOf(t)}, nil
	case "rangeidx": // position of key k in the enumeration of the map iterated by this loop
		if env.loop == nil {
			return SVal{}, fmt.Errorf("rangeidx outside loop invariant")
		}
		rm := e.rangeFor(env)
		if rm == nil {
			return SVal{}, fmt.Errorf("rangeidx: loop does not iterate a map with the exact enumeration model")
		}
		a, err := argv(0)
		if err != nil {
			return SVal{}, err
		}
		return SVal{T: app(rm.ri, rm.it, a.T), Typ: intT, Sort: "Int"}, nil
	case "contains", "containsUpTo": // contains(s, x) / containsUpTo(s, n, x): x occurs in s (among the first n elements)
		sl, err := argv(0)
		if err != nil {
			return SVal{}, err
		}
		var bound, xv SVal
		if x.Name == "contains" {
			if len(x.Args) != 2 {
				return SVal{}, fmt.Errorf("contains(s, x)")
			}
			l, err := env.call(&CExpr{Op: "call", Name: "len", Args: []*CExpr{x.Args[0]}})
			if err != nil {
				return SVal{}, err
			}
			bound = l
			if xv, err = argv(1); err != nil {
				return SVal{}, err
			}
		} else {
			if len(x.Args) != 3 {
				return SVal{}, fmt.Errorf("containsUpTo(s, n, x)")
			}
			if bound, err = argv(1); err != nil {
				return SVal{}, err
			}
			if xv, err = argv(2); err != nil {
				return SVal{}, err
			}
		}
		// integer-, bool- and string-valued slices: the recursive definition memI/memB/memS
		if sl.Typ != nil {
			if st, ok := sl.Typ.Underlying().(*types.Slice); ok {
				fn := map[string]string{"Int": "memI", "Bool": "memB", "Str": "memS"}[W.sortOf(st.Elem())]
				if _, isPtr := st.Elem().Underlying().(*types.Pointer); fn != "" && !isPtr && e.P.reg.Specs[fn] != nil {
					sig, err := e.specSignatureFor(env, e.P.reg.Specs[fn])
					if err != nil {
						return SVal{}, err
					}
					v, err := env.toView(sl)
					if err != nil {
						return SVal{}, err
					}
					if env.curSpec != nil {
						env.curSpec.calls[fn] = true
					}
					return SVal{T: app(sig.smt, v.T, bound.T, xv.T), Typ: boolT, Sort: "Bool"}, nil
				}
			}
		}
		e.nfresh++
		iv := fmt.Sprintf("q!ci%d", e.nfresh)
		el, err := env.index(sl, SVal{T: iv, Sort: "Int"})
		if err != nil {
			return SVal{}, err
		}
		if xv.Sort == "nil" {
			xv = env.nilOf(el)
		}
		if el.Sort != xv.Sort {
			return SVal{}, fmt.Errorf("%s: element sort %s vs %s", x.Name, el.Sort, xv.Sort)
		}
		return SVal{T: fmt.Sprintf("(exists ((%s Int)) (and (<= 0 %s) (< %s %s) (= %s %s)))", iv, iv, iv, bound.T, el.T, xv.T), Typ: boolT, Sort: "Bool"}, nil
	case "atpre": // atpre(e): e evaluated in the heap at function entry, with the current values of variables
		if env.oldHeap == nil {
			return SVal{}, fmt.Errorf("atpre: no entry heap in this context")
		}
		n := *env
		n.heap = env.oldHeap
		n.inOld = false
		return (&n).tr(x.Args[0])
	case "sametype": // sametype(a, b): interface values of the same dynamic type
		a, err := argv(0)
		if err != nil {
			return SVal{}, err
		}
		b, err := argv(1)
		if err != nil {
			return SVal{}, err
		}
		return SVal{T: sEq(app("itag", a.T), app("itag", b.T)), Typ: boolT, Sort: "Bool"}, nil
	case "zero": // zero(T): the zero value of type T
		t, err := e.evalType(x.Args[0].String(), env.pkg)
		if err != nil {
			return SVal{}, err
		}
		return SVal{T: W.zero(t), Typ: t, Sort: W.sortOf(t)}, nil
	case "operand": // operand(k): the k-th operand of the statement an assert_at / snapshot_at is anchored at
		if len(x.Args) != 1 || x.Args[0].Op != "lit-int" || env.block == nil || env.idx >= len(env.block.Instrs) {
			return SVal{}, fmt.Errorf("operand(k) needs a literal index and an anchored statement")
		}
		k, _ := strconv.Atoi(x.Args[0].Int)
		ops := env.block.Instrs[env.idx].Operands(nil)
		if k < 0 || k >= len(ops) || ops[k] == nil || *ops[k] == nil {
			return SVal{}, fmt.Errorf("operand(%d): the anchored statement has %d operands", k, len(ops))
		}
		return env.fromVal(e.val(*ops[k]))
	case "addrof": // addrof(x): the address of a variable captured by reference (closure free variable)
		if len(x.Args) != 1 || x.Args[0].Op != "id" || env.fr == nil {
			return SVal{}, fmt.Errorf("addrof needs a variable name")
		}
		for _, p := range env.fr.fn.FreeVars {
			if p.Name() == x.Args[0].Name {
				if _, ok := p.Type().(*types.Pointer); ok {
					v := e.val(p)
					if v.Loc == nil {
						return SVal{T: v.T, Typ: p.Type(), Sort: "Int"}, nil
					}
				}
			}
		}
		return SVal{}, fmt.Errorf("addrof: %s is not a variable captured by reference", x.Args[0].Name)
	case "fieldaddr": // fieldaddr(p, f): the address &p.f of a struct-valued field f embedded by value in *p
		a, err := argv(0)
		if err != nil {
			return SVal{}, err
		}
		if a.Typ == nil {
			return SVal{}, fmt.Errorf("fieldaddr: untyped pointer")
		}
		pt, ok := a.Typ.Underlying().(*types.Pointer)
		if !ok || e.W.structInfo(pt.Elem()) == nil {
			return SVal{}, fmt.Errorf("fieldaddr: first argument is not a pointer to a struct")
		}
		si := e.W.structInfo(pt.Elem())
		fi := fieldIndex(si.St, x.Args[1].String())
		if fi < 0 || e.W.structInfo(si.St.Field(fi).Type()) == nil {
			return SVal{}, fmt.Errorf("fieldaddr: %s is not a struct-valued field", x.Args[1])
		}
		return SVal{T: e.subRef(pt.Elem(), fi, a.T), Typ: types.NewPointer(si.St.Field(fi).Type()), Sort: "Int"}, nil
	case "atlock": // atlock(e): e evaluated in the heap right after the first mutex Lock of the function (the linearization point's pre-state)
		if env.callSite {
			// in a callee's postcondition the callee's lock-time state is unknown to the caller:
			// an arbitrary heap (the same one throughout the postconditions of this call)
			h := env.arb
			n := *env
			n.heapFn = func(c *Comp, old bool) string {
				if v, ok := h[c.Name]; ok {
					return v
				}
				v := e.fresh("atlock."+c.Name, c.Sort)
				h[c.Name] = v
				return v
			}
			n.inOld = false
			return (&n).tr(x.Args[0])
		}
		n := *env
		if len(x.Args) == 2 && x.Args[1].Op == "lit-int" {
			// atlock(e, k): after the k-th Lock call of the function body (in program order)
			k, _ := strconv.Atoi(x.Args[1].Int)
			if k >= 1 && k <= len(e.lockHeaps) {
				n.heap = e.lockHeaps[k-1]
				n.inOld = false
				return (&n).tr(x.Args[0])
			}
			if env.oldHeap == nil {
				return SVal{}, fmt.Errorf("atlock: no %d-th lock before this point", k)
			}
			n.heap = env.oldHeap
			n.inOld = false
			return (&n).tr(x.Args[0])
		}
		if e.lockHeap != nil {
			n.heap = e.lockHeap
		} else if env.oldHeap != nil {
			n.heap = env.oldHeap // no Lock encoded yet (a return before the Lock): entry state
		} else {
			return SVal{}, fmt.Errorf("atlock: no lock and no entry heap in this context")
		}
		n.inOld = false
		return (&n).tr(x.Args[0])
	case "atentry": // atentry(e): e evaluated in the heap with which the current loop was entered
		if env.loop == nil || env.loop.entryHeap == nil {
			return SVal{}, fmt.Errorf("atentry outside a loop invariant (or loop with several entry edges)")
		}
		n := *env
		n.heap = env.loop.entryHeap
		n.inOld = false
		return (&n).tr(x.Args[0])
	case "slicebase", "sliceoff": // identity of the backing array / offset of a slice value
		a, err := argv(0)
		if err != nil {
			return SVal{}, err
		}
		if a.Sort != "Slice" {
			return SVal{}, fmt.Errorf("%s: not a slice", x.Name)
		}
		fn := map[string]string{"slicebase": "sbase", "sliceoff": "soff"}[x.Name]
		return SVal{T: app(fn, a.T), Typ: intT, Sort: "Int"}, nil
	case "streq": // streq(a, b): same length and same bytes (extensional equality of strings)
		a, err := argv(0)
		if err != nil {
			return SVal{}, err
		}
		b, err := argv(1)
		if err != nil {
			return SVal{}, err
		}
		if a.Sort != "Str" || b.Sort != "Str" {
			return SVal{}, fmt.Errorf("streq: string arguments expected")
		}
		// extensional equality: provable from equal lengths and equal bytes at the (skolem)
		// position strdiff(a,b); as a hypothesis it gives a == b (see the prelude axioms)
		return SVal{T: app("strext", a.T, b.T), Typ: boolT, Sort: "Bool"}, nil
	case "arrayof": // arrayof(p): the whole backing array of slice p (as a value)
		a, err := argv(0)
		if err != nil {
			return SVal{}, err
		}
		if a.Sort != "Slice" || a.Typ == nil {
			return SVal{}, fmt.Errorf("arrayof: not a slice")
		}
		el := a.Typ.Underlying().(*types.Slice).Elem()
		return SVal{T: app("select", env.heapOf(W.elemComp(el)), app("sbase", a.T)), Sort: "(Array Int " + W.sortOf(el) + ")", ElemTyp: el}, nil
	case "unchangedArray": // unchangedArray(p): the whole backing array of slice p is as in the old state
		a, err := argv(0)
		if err != nil {
			return SVal{}, err
		}
		if a.Sort != "Slice" || a.Typ == nil {
			return SVal{}, fmt.Errorf("unchangedArray: not a slice")
		}
		el := a.Typ.Underlying().(*types.Slice).Elem()
		c := W.elemComp(el)
		o := *env
		o.inOld = true
		return SVal{T: sEq(app("select", env.heapOf(c), app("sbase", a.T)), app("select", (&o).heapOf(c), app("sbase", a.T))), Typ: boolT, Sort: "Bool"}, nil
	case "sameOutside": // sameOutside(p): the backing array of slice p is unchanged (w.r.t. old) outside p's own window
		a, err := argv(0)
		if err != nil {
			return SVal{}, err
		}
		if a.Sort != "Slice" || a.Typ == nil {
			return SVal{}, fmt.Errorf("sameOutside: not a slice")
		}
		el := a.Typ.Underlying().(*types.Slice).Elem()
		c := W.elemComp(el)
		o := *env
		o.inOld = true
		cur := app("select", env.heapOf(c), app("sbase", a.T))
		old := app("select", (&o).heapOf(c), app("sbase", a.T))
		e.nfresh++
		j := fmt.Sprintf("q!so%d", e.nfresh)
		return SVal{T: fmt.Sprintf("(forall ((%s Int)) (! (=> (or (< %s (soff %s)) (>= %s (+ (soff %s) (slength %s)))) (= (select %s %s) (select %s %s))) :pattern ((select %s %s))))",
			j, j, a.T, j, a.T, a.T, cur, j, old, j, cur, j), Typ: boolT, Sort: "Bool"}, nil
	case "view":
		a, err := argv(0)
		if err != nil {
			return SVal{}, err
		}
		return env.toView(a)
	case "int": // conversions are identities on mathematical integers
		return argv(0)
	case "str1": // one-byte string
		a, err := argv(0)
		if err != nil {
			return SVal{}, err
		}
		return SVal{T: app("sbyte", a.T), Typ: types.Typ[types.String], Sort: "Str"}, nil
	case "bytes": // bytes(s) for a []byte slice: the Str with the same content (ghost view)
		a, err := argv(0)
		if err != nil {
			return SVal{}, err
		}
		if a.Sort != "Slice" {
			return SVal{}, fmt.Errorf("bytes: not a slice")
		}
		el := a.Typ.Underlying().(*types.Slice).Elem()
		c := W.elemComp(el)
		W.declareStrOfArr()
		return SVal{T: app("strofarr", app("select", env.heapOf(c), app("sbase", a.T)), app("soff", a.T), app("slength", a.T)), Typ: types.Typ[types.String], Sort: "Str"}, nil
	}
	if strings.HasPrefix(x.Name, ".") {
		return env.methodCall(x)
	}
	sf := e.P.reg.Specs[x.Name]
	if sf == nil {
		return SVal{}, fmt.Errorf("unknown function %s", x.Name)
	}
	var sig *specSig
	var err error
	if env.curSpec != nil {
		sig, err = e.specShell(sf)
	} else {
		sig, err = e.specSignature(sf)
	}
	if err != nil {
		return SVal{}, err
	}
	if len(x.Args) != len(sig.params) {
		return SVal{}, fmt.Errorf("%s: expected %d arguments, got %d", sf.Name, len(sig.params), len(x.Args))
	}
	var args []string
	for i := range x.Args {
		a, err := argv(i)
		if err != nil {
			return SVal{}, err
		}
		if a.Sort == "nil" {
			a = env.nilOf(sig.params[i])
		}
		if strings.HasPrefix(sig.params[i].Sort, "S!") && a.Sort == "Int" && a.Typ != nil {
			// address of a struct variable where the struct value is expected: read it
			if pt, ok := a.Typ.Underlying().(*types.Pointer); ok && e.W.structInfo(pt.Elem()) != nil && e.W.sortOf(pt.Elem()) == sig.params[i].Sort {
				a = SVal{T: env.loadStructSpec(a.T, pt.Elem()), Typ: pt.Elem(), Sort: sig.params[i].Sort}
			}
		}
		if isView(sig.params[i].Sort) && a.Sort == "Slice" {
			if a, err = env.toView(a); err != nil {
				return SVal{}, err
			}
		}
		if a.Sort != sig.params[i].Sort {
			return SVal{}, fmt.Errorf("%s: argument %d has sort %s, expected %s", sf.Name, i, a.Sort, sig.params[i].Sort)
		}
		args = append(args, a.T)
	}
	if env.curSpec != nil {
		env.curSpec.calls[sf.Name] = true
	}
	for _, r := range sig.reads {
		args = append(args, env.heapOf(W.comps[r]))
	}
	return SVal{T: app(sig.smt, args...), Typ: sig.ret, Sort: sig.retS}, nil
}

// methodCall handles x.GetFoo() style protobuf getters in specifications.
func (env *SpecEnv) methodCall(x *CExpr) (SVal, error) {
	recv, err := env.tr(x.Args[0])
	if err != nil {
		return SVal{}, err
	}
	name := x.Name[1:]
	if strings.HasPrefix(name, "Get") && len(x.Args) == 1 {
		f, err := env.selectField(recv, name[3:])
		if err != nil {
			return SVal{}, err
		}
		if _, isPtr := derefStruct(recv.Typ); isPtr {
			z := env.e.W.zero(f.Typ)
			if f.Sort == "Int" && f.Typ != nil {
				if _, ok := f.Typ.Underlying().(*types.Pointer); ok {
					z = "0"
				}
			}
			return SVal{T: sIte(sEq(recv.T, "0"), z, f.T), Typ: f.Typ, Sort: f.Sort}, nil
		}
		return f, nil
	}
	return SVal{}, fmt.Errorf("unsupported method call %s", x)
}

// ---------------------------------------------------------------------------
// Spec functions

func (e *Enc) specSignatureFor(env *SpecEnv, sf *SpecFn) (*specSig, error) {
	if env.curSpec != nil {
		return e.specShell(sf)
	}
	return e.specSignature(sf)
}

// specShell creates the signature (without body) of a spec function.
func (e *Enc) specShell(sf *SpecFn) (*specSig, error) {
	if s, ok := e.specSigs[sf.Name]; ok {
		return s, nil
	}
	pkg := e.P.tpkgs[sf.Pkg]
	s := &specSig{fn: sf, smt: "spec!" + sanitize(sf.Name), calls: map[string]bool{}}
	for _, p := range sf.Params {
		t, err := e.evalType(p.Type, pkg)
		if err != nil {
			return nil, fmt.Errorf("spec %s param %s: %v", sf.Name, p.Name, err)
		}
		s.params = append(s.params, SVal{T: "a!" + sanitize(p.Name), Typ: t, Sort: e.specSort(t)})
	}
	rt, err := e.evalType(sf.Ret, pkg)
	if err != nil {
		return nil, fmt.Errorf("spec %s result: %v", sf.Name, err)
	}
	s.ret, s.retS = rt, e.specSort(rt)
	e.specSigs[sf.Name] = s
	return s, nil
}

// translateSpecBody translates the body once with the current read sets of callees.
// Returns whether the read set changed.
func (e *Enc) translateSpecBody(s *specSig) (bool, error) {
	sf := s.fn
	if sf.Body == nil {
		s.state = 2
		return false, nil
	}
	reads := map[string]bool{}
	env := e.newSpecEnv(nil, nil)
	env.pkg = e.P.tpkgs[sf.Pkg]
	env.curSpec = s
	env.heapFn = func(c *Comp, old bool) string {
		reads[c.Name] = true
		return "h!" + c.Name
	}
	for i, p := range sf.Params {
		env.binders[p.Name] = s.params[i]
	}
	body, err := env.tr(sf.Body)
	if err != nil {
		return false, fmt.Errorf("spec %s (%s): %v", sf.Name, sf.Src, err)
	}
	if body.Sort == "nil" {
		body = env.nilOf(SVal{Sort: s.retS})
	}
	if body.Sort != s.retS {
		return false, fmt.Errorf("spec %s: body has sort %s, declared %s", sf.Name, body.Sort, s.retS)
	}
	s.body = body.T
	for c := range s.calls {
		if cs := e.specSigs[c]; cs != nil {
			for _, r := range cs.reads {
				reads[r] = true
			}
		}
	}
	var rs []string
	for r := range reads {
		rs = append(rs, r)
	}
	sort.Strings(rs)
	changed := strings.Join(rs, ",") != strings.Join(s.reads, ",")
	s.reads = rs
	s.state = 2
	return changed, nil
}

// specSignature returns the final signature (including the heap components read)
// of a spec function; it closes over everything reachable from it.
func (e *Enc) specSignature(sf *SpecFn) (*specSig, error) {
	if s, ok := e.specSigs[sf.Name]; ok && s.state == 2 {
		return s, nil
	}
	if _, err := e.specShell(sf); err != nil {
		return nil, err
	}
	for round := 0; round < 20; round++ {
		changed := false
		var names []string
		for n := range e.specSigs {
			names = append(names, n)
		}
		sort.Strings(names)
		before := len(names)
		for _, n := range names {
			ch, err := e.translateSpecBody(e.specSigs[n])
			if err != nil {
				return nil, err
			}
			changed = changed || ch
		}
		if !changed && len(e.specSigs) == before {
			break
		}
	}
	return e.specSigs[sf.Name], nil
}

// specDefs renders all spec functions used so far: non-recursive ones as plain
// define-fun macros (in dependency order), recursive ones in one define-funs-rec block.
func (e *Enc) specDefs() string {
	if len(e.specSigs) == 0 {
		return ""
	}
	var names []string
	for n := range e.specSigs {
		names = append(names, n)
	}
	sort.Strings(names)
	// reachability over the call graph
	reach := map[string]map[string]bool{}
	var dfs func(from, n string)
	dfs = func(from, n string) {
		s := e.specSigs[n]
		if s == nil {
			return
		}
		for c := range s.calls {
			if !reach[from][c] {
				reach[from][c] = true
				dfs(from, c)
			}
		}
	}
	for _, n := range names {
		reach[n] = map[string]bool{}
		dfs(n, n)
	}
	recursive := func(n string) bool {
		if reach[n][n] || !e.specSigs[n].fn.Macro {
			return true // everything not explicitly marked "macro" goes into the define-funs-rec block
		}
		// depends on a recursive function? then it must come after the rec block: handled by ordering
		return false
	}
	sig := func(s *specSig) (string, []string) {
		var ps, sorts []string
		for _, p := range s.params {
			ps = append(ps, fmt.Sprintf("(%s %s)", p.T, p.Sort))
			sorts = append(sorts, p.Sort)
		}
		for _, r := range s.reads {
			ps = append(ps, fmt.Sprintf("(h!%s %s)", r, e.W.comps[r].Sort))
		}
		return strings.Join(ps, " "), sorts
	}
	var out []string
	for _, n := range names {
		s := e.specSigs[n]
		if s.fn.Body == nil {
			_, sorts := sig(s)
			out = append(out, fmt.Sprintf("(declare-fun %s (%s) %s)", s.smt, strings.Join(sorts, " "), s.retS))
		}
	}
	// emit in dependency order; a function is ready when all its callees are emitted
	emitted := map[string]bool{}
	for _, n := range names {
		if e.specSigs[n].fn.Body == nil {
			emitted[n] = true
		}
	}
	recEmitted := false
	for progress := true; progress; {
		progress = false
		for _, n := range names {
			s := e.specSigs[n]
			if emitted[n] || recursive(n) {
				continue
			}
			ready := true
			for c := range s.calls {
				if e.specSigs[c] != nil && !emitted[c] {
					ready = false
				}
			}
			if !ready {
				continue
			}
			ps, _ := sig(s)
			out = append(out, fmt.Sprintf("(define-fun %s (%s) %s %s)", s.smt, ps, s.retS, s.body))
			emitted[n] = true
			progress = true
		}
		if !progress && !recEmitted {
			// emit the recursive block once all non-recursive functions it may call are out
			var decls, bodies, recax, recaxAx []string
			for _, n := range names {
				s := e.specSigs[n]
				if emitted[n] || !recursive(n) {
					continue
				}
				ps, sorts := sig(s)
				decls = append(decls, fmt.Sprintf("(%s (%s) %s)", s.smt, ps, s.retS))
				bodies = append(bodies, s.body)
				emitted[n] = true
				// the same definition as an uninterpreted function with a triggered unfolding
				// axiom (alternative script variant, see recaxScript): kept as comment lines
				var anames []string
				for _, p := range s.params {
					anames = append(anames, p.T)
				}
				for _, r := range s.reads {
					anames = append(anames, "h!"+r)
				}
				callT := "(" + s.smt + " " + strings.Join(anames, " ") + ")"
				for _, r := range s.reads {
					sorts = append(sorts, e.W.comps[r].Sort)
				}
				body := strings.ReplaceAll(s.body, "\n", " ")
				if reach[n][n] && os.Getenv("VERIF_NOFUEL") == "" {
					// recursive: fuel-indexed unfolding (two levels from the terms of the query),
					// so that E-matching on the unfolding axiom cannot run away
					fsorts := append([]string{"Fuel"}, sorts...)
					recax = append(recax, fmt.Sprintf(";;recax-rec %s", s.smt))
					recax = append(recax, fmt.Sprintf(";;recax (declare-fun %s (%s) %s)", s.smt, strings.Join(fsorts, " "), s.retS))
					callS := "(" + s.smt + " (FS fu!) " + strings.Join(anames, " ") + ")"
					callP := "(" + s.smt + " fu! " + strings.Join(anames, " ") + ")"
					recaxAx = append(recaxAx, fmt.Sprintf(";;recax-body (assert (forall ((fu! Fuel) %s) (! (= %s %s) :pattern (%s))))", ps, callS, body, callS))
					recaxAx = append(recaxAx, fmt.Sprintf(";;recax-syn (assert (forall ((fu! Fuel) %s) (! (= %s %s) :pattern (%s))))", ps, callS, callP, callS))
				} else {
					recax = append(recax, fmt.Sprintf(";;recax (declare-fun %s (%s) %s)", s.smt, strings.Join(sorts, " "), s.retS))
					recaxAx = append(recaxAx, fmt.Sprintf(";;recax (assert (forall (%s) (! (= %s %s) :pattern (%s))))", ps, callT, body, callT))
				}
			}
			recEmitted = true
			if len(decls) > 0 {
				out = append(out, "(define-funs-rec ("+strings.Join(decls, "\n  ")+")\n ("+strings.Join(bodies, "\n  ")+"))")
				out = append(out, recax...)
				out = append(out, recaxAx...)
				progress = true
			}
		}
	}
	// anything left (non-recursive functions calling into a cycle that calls them back cannot exist); emit leftovers recursively
	var decls, bodies []string
	for _, n := range names {
		s := e.specSigs[n]
		if emitted[n] {
			continue
		}
		ps, _ := sig(s)
		decls = append(decls, fmt.Sprintf("(%s (%s) %s)", s.smt, ps, s.retS))
		bodies = append(bodies, s.body)
	}
	if len(decls) > 0 {
		out = append(out, "(define-funs-rec ("+strings.Join(decls, "\n  ")+")\n ("+strings.Join(bodies, "\n  ")+"))")
	}
	return strings.Join(out, "\n")
}

// rangeFor: the exact map-range model of the invariant's own loop or, if that loop does
// not iterate a map, of the innermost enclosing loop that does.
func (e *Enc) rangeFor(env *SpecEnv) *rangeModel {
	if env.loop == nil {
		return nil
	}
	if rm := e.headerRange(env.loop); rm != nil {
		return rm
	}
	if env.fr == nil {
		return nil
	}
	var best *loopInfo
	for _, lj := range env.fr.loops {
		if lj == env.loop || !lj.body[env.loop.header] || e.headerRange(lj) == nil {
			continue
		}
		if best == nil || best.body[lj.header] {
			best = lj
		}
	}
	if best == nil {
		return nil
	}
	return e.headerRange(best)
}
