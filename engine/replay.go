package main

// Replay of counterexamples on the real code.
//
// When an obligation of a function with a plain-data signature (integers, booleans,
// strings, byte slices; no receiver, no closure) is not discharged, the solver is asked for
// the values of the parameters in its (candidate) model. The real function is then called
// with these values from an in-package test that is injected with `go test -overlay`
// (nothing is written into the repository):
//
//   - safety obligations (index, slice bounds, nil, division, type assertion): the replay
//     confirms the violation when the call panics;
//   - postconditions: the observed results are pinned, together with the inputs, in the
//     verification condition; the violation is confirmed when the pinned execution is
//     consistent with the encoding of the body and the postcondition is refuted for it
//     (two solver calls: "not unsat" without the postcondition, "unsat" with it).
//
// A candidate model of an "unknown" answer may be spurious; only what reproduces on the
// real code is reported as a failing input. Everything else keeps the marker
// no-failing-input-found.

import (
	"encoding/hex"
	"encoding/json"
	"fmt"
	"go/types"
	"os"
	"os/exec"
	"path/filepath"
	"regexp"
	"strconv"
	"strings"

	"golang.org/x/tools/go/ssa"
)

const replayMaxLen = 40

type rpParam struct {
	name string
	term string
	kind string // int, bool, string, bytes
	typ  string // Go type text as seen from inside the package
	ival string
	bval bool
	sval []byte
}

func replayKind(t types.Type, pkg *types.Package) (kind, text string, ok bool) {
	q := func(p *types.Package) string {
		if p == pkg {
			return ""
		}
		return "\x00" // a type of another package: would need an import, not supported
	}
	text = types.TypeString(t, q)
	if strings.Contains(text, "\x00") {
		return "", "", false
	}
	switch u := t.Underlying().(type) {
	case *types.Basic:
		switch {
		case u.Info()&types.IsBoolean != 0:
			return "bool", text, true
		case u.Info()&types.IsInteger != 0:
			return "int", text, true
		case u.Info()&types.IsString != 0:
			return "string", text, true
		}
	case *types.Slice:
		if b, isB := u.Elem().Underlying().(*types.Basic); isB && b.Kind() == types.Uint8 {
			return "bytes", text, true
		}
	}
	return "", "", false
}

// sexp: a tiny S-expression reader for get-value answers.
type sexp struct {
	atom string
	list []*sexp
}

func parseSexp(s string) []*sexp {
	var stack [][]*sexp
	cur := []*sexp{}
	i := 0
	for i < len(s) {
		c := s[i]
		switch {
		case c == '(':
			stack = append(stack, cur)
			cur = []*sexp{}
			i++
		case c == ')':
			n := &sexp{list: cur}
			if len(stack) == 0 {
				return cur
			}
			cur = append(stack[len(stack)-1], n)
			stack = stack[:len(stack)-1]
			i++
		case c == ' ' || c == '\n' || c == '\t' || c == '\r':
			i++
		case c == '|':
			j := strings.IndexByte(s[i+1:], '|')
			if j < 0 {
				return cur
			}
			cur = append(cur, &sexp{atom: s[i : i+j+2]})
			i += j + 2
		case c == '"':
			j := i + 1
			for j < len(s) && s[j] != '"' {
				j++
			}
			cur = append(cur, &sexp{atom: s[i:min(j+1, len(s))]})
			i = j + 1
		default:
			j := i
			for j < len(s) && !strings.ContainsRune("() \n\t\r", rune(s[j])) {
				j++
			}
			cur = append(cur, &sexp{atom: s[i:j]})
			i = j
		}
	}
	return cur
}

func (x *sexp) String() string {
	if x.list == nil {
		return x.atom
	}
	var ps []string
	for _, y := range x.list {
		ps = append(ps, y.String())
	}
	return "(" + strings.Join(ps, " ") + ")"
}

func sexpInt(x *sexp) (string, bool) {
	if x.list == nil {
		if _, err := strconv.ParseInt(x.atom, 10, 64); err == nil {
			return x.atom, true
		}
		return "", false
	}
	if len(x.list) == 2 && x.list[0].atom == "-" {
		if v, ok := sexpInt(x.list[1]); ok {
			return "-" + v, true
		}
	}
	return "", false
}

// scriptBase: the script without its final check-sat/get-model, split into everything
// before the negated goal and the goal line itself.
func scriptBase(script string) (before string, ok bool) {
	i := strings.LastIndex(script, "\n(assert (not ")
	if i < 0 {
		return "", false
	}
	return script[:i+1], true
}

func solveText(dir, name, text string, timeoutS int) string {
	f := filepath.Join(dir, name)
	if err := os.WriteFile(f, []byte(text), 0o644); err != nil {
		return "error"
	}
	out, _ := exec.Command("z3-new", fmt.Sprintf("-T:%d", timeoutS), "model.completion=true", f).CombinedOutput()
	return string(out)
}

func goStringLit(b []byte) string {
	var sb strings.Builder
	sb.WriteByte('"')
	for _, c := range b {
		fmt.Fprintf(&sb, "\\x%02x", c)
	}
	sb.WriteByte('"')
	return sb.String()
}

func pinString(term string, b []byte) string {
	var fs []string
	fs = append(fs, fmt.Sprintf("(= (slen %s) %d)", term, len(b)))
	for i, c := range b {
		fs = append(fs, fmt.Sprintf("(= (sat %s %d) %d)", term, i, c))
	}
	return "(and " + strings.Join(fs, " ") + ")"
}

func smtInt(v string) string {
	if strings.HasPrefix(v, "-") {
		return "(- " + v[1:] + ")"
	}
	return v
}

// replayObligation: see the comment at the top of the file. rp receives what was tried.
func replayObligation(P *Program, r *FnResult, o *Obl, rp map[string]any, scratch string) bool {
	note := func(f string, a ...any) bool {
		rp["replay"] = fmt.Sprintf(f, a...)
		return false
	}
	if r == nil || o == nil || o.Script == "" {
		return note("not attempted: no solver script for this report")
	}
	fn := P.lookupFunc(r.Key)
	if fn == nil || fn.Signature.Recv() != nil || fn.Parent() != nil || len(fn.FreeVars) > 0 || fn.Pkg == nil {
		return note("not attempted: only plain functions (no receiver, no closure) are replayed")
	}
	if fn.Signature.Variadic() {
		return note("not attempted: variadic function")
	}
	if len(r.ParamTerms) != len(fn.Params) || len(fn.Params) == 0 {
		return note("not attempted: parameters not available")
	}
	pkg := fn.Pkg.Pkg
	var ps []*rpParam
	for i, p := range fn.Params {
		k, txt, ok := replayKind(p.Type(), pkg)
		if !ok {
			return note("not attempted: parameter %s has type %s (only integers, booleans, strings and byte slices are replayed)", p.Name(), p.Type())
		}
		ps = append(ps, &rpParam{name: p.Name(), term: r.ParamTerms[i], kind: k, typ: txt})
	}
	data, err := os.ReadFile(o.Script)
	if err != nil {
		return note("not attempted: %v", err)
	}
	script := string(data)
	base, ok := scriptBase(script)
	if !ok {
		return note("not attempted: unexpected script shape")
	}
	goalLine := script[len(base):]
	if j := strings.Index(goalLine, "\n"); j >= 0 {
		goalLine = goalLine[:j]
	}
	haveBytes := strings.Contains(script, "(declare-const E!uint8@0 ")
	// 1. values of the parameters in the solver's model
	var terms []string
	for _, p := range ps {
		switch p.kind {
		case "int", "bool":
			terms = append(terms, p.term)
		case "string":
			terms = append(terms, "(slen "+p.term+")")
			for i := 0; i < replayMaxLen; i++ {
				terms = append(terms, fmt.Sprintf("(sat %s %d)", p.term, i))
			}
		case "bytes":
			terms = append(terms, "(slength "+p.term+")")
			for i := 0; i < replayMaxLen; i++ {
				if haveBytes {
					terms = append(terms, fmt.Sprintf("(select (select E!uint8@0 (sbase %s)) (+ (soff %s) %d))", p.term, p.term, i))
				} else {
					terms = append(terms, "0")
				}
			}
		}
	}
	os.MkdirAll(scratch, 0o755)
	// Model search: the string-algebra axioms of the prelude (quantified) are left out and the
	// lengths of string and byte-slice parameters are bounded, which lets the solver build a
	// model of the remaining quantifiers quickly. A model found this way may violate a dropped
	// axiom; it is only a candidate - what counts is the run of the real code below.
	var ms strings.Builder
	for _, ln := range strings.Split(base, "\n") {
		if strings.HasPrefix(ln, "(assert (forall") && (strings.Contains(ln, "sconcat") || strings.Contains(ln, "ssub") || strings.Contains(ln, "strext") || strings.Contains(ln, "sbyte") || strings.Contains(ln, "strofarr")) {
			continue
		}
		ms.WriteString(ln)
		ms.WriteString("\n")
	}
	var out, first string
	for _, bound := range []int{4, 12, replayMaxLen} {
		q := ms.String() + goalLine + "\n"
		for _, p := range ps {
			switch p.kind {
			case "string":
				q += fmt.Sprintf("(assert (<= (slen %s) %d))\n", p.term, bound)
			case "bytes":
				q += fmt.Sprintf("(assert (<= (slength %s) %d))\n", p.term, bound)
			}
		}
		q += "(check-sat)\n(get-value (" + strings.Join(terms, " ") + "))\n"
		out = solveText(scratch, fmt.Sprintf("replay_model_%d.smt2", bound), q, 10)
		first = strings.TrimSpace(strings.SplitN(out, "\n", 2)[0])
		if first == "sat" || (first == "unknown" && strings.Contains(out, "((")) {
			break
		}
	}
	if first != "sat" && first != "unknown" {
		return note("no model: solver answered %q", first)
	}
	rest := ""
	if i := strings.Index(out, "\n"); i >= 0 {
		rest = out[i+1:]
	}
	vals := parseSexp(rest)
	if len(vals) != 1 || len(vals[0].list) != len(terms) {
		return note("no model: the solver gave no values for the parameters (%s)", first)
	}
	vi := 0
	next := func() *sexp {
		v := vals[0].list[vi]
		vi++
		if len(v.list) == 2 {
			return v.list[1]
		}
		return v
	}
	var inputDesc []string
	for _, p := range ps {
		switch p.kind {
		case "int":
			v, ok := sexpInt(next())
			if !ok {
				return note("model value of %s is not a number", p.name)
			}
			p.ival = v
			inputDesc = append(inputDesc, fmt.Sprintf("%s=%s", p.name, v))
		case "bool":
			p.bval = next().atom == "true"
			inputDesc = append(inputDesc, fmt.Sprintf("%s=%v", p.name, p.bval))
		case "string", "bytes":
			ln, ok := sexpInt(next())
			n, _ := strconv.Atoi(ln)
			if !ok || n < 0 || n > replayMaxLen {
				for i := 0; i < replayMaxLen; i++ {
					next()
				}
				return note("model value of %s has length %s (only up to %d bytes are replayed)", p.name, ln, replayMaxLen)
			}
			for i := 0; i < replayMaxLen; i++ {
				b, ok := sexpInt(next())
				c, _ := strconv.Atoi(b)
				if i < n {
					if !ok || c < 0 || c > 255 {
						c = 0
					}
					p.sval = append(p.sval, byte(c))
				}
			}
			inputDesc = append(inputDesc, fmt.Sprintf("%s=%q", p.name, string(p.sval)))
		}
	}
	rp["replay_input"] = strings.Join(inputDesc, ", ")
	// 2. the real function on these values
	var args []string
	for _, p := range ps {
		switch p.kind {
		case "int":
			args = append(args, fmt.Sprintf("%s(%s)", parenType(p.typ), p.ival))
		case "bool":
			args = append(args, fmt.Sprintf("%s(%v)", parenType(p.typ), p.bval))
		case "string":
			args = append(args, fmt.Sprintf("%s(%s)", parenType(p.typ), goStringLit(p.sval)))
		case "bytes":
			args = append(args, fmt.Sprintf("%s(%s)", parenType(p.typ), goStringLit(p.sval)))
		}
	}
	res := fn.Signature.Results()
	var resKinds []string
	simpleRes := true
	for i := 0; i < res.Len(); i++ {
		k, _, ok := replayKind(res.At(i).Type(), pkg)
		if !ok {
			k = "other"
			simpleRes = false
		}
		resKinds = append(resKinds, k)
	}
	var lhs, prints []string
	for i, k := range resKinds {
		v := fmt.Sprintf("r%d", i)
		lhs = append(lhs, v)
		switch k {
		case "int":
			prints = append(prints, fmt.Sprintf("fmt.Sprintf(\"int:%%d\", int64(%s))", v))
		case "bool":
			prints = append(prints, fmt.Sprintf("fmt.Sprintf(\"bool:%%v\", bool(%s))", v))
		case "string", "bytes":
			prints = append(prints, fmt.Sprintf("\"hex:\" + hex.EncodeToString([]byte(%s))", v))
		default:
			prints = append(prints, fmt.Sprintf("fmt.Sprintf(\"other:%%v\", %s == nil)", v))
			if _, isIface := res.At(i).Type().Underlying().(*types.Interface); !isIface {
				if _, isPtr := res.At(i).Type().Underlying().(*types.Pointer); !isPtr {
					prints[len(prints)-1] = "\"other:?\""
				}
			}
		}
	}
	call := fmt.Sprintf("%s(%s)", fn.Name(), strings.Join(args, ", "))
	if len(lhs) > 0 {
		call = strings.Join(lhs, ", ") + " := " + call
	}
	uses := ""
	for _, v := range lhs {
		uses += "\t_ = " + v + "\n"
	}
	joined := "\"\""
	if len(prints) > 0 {
		joined = "strings.Join([]string{" + strings.Join(prints, ", ") + "}, \" \")"
	}
	src := fmt.Sprintf(`package %s

import (
	"encoding/hex"
	"fmt"
	"strings"
	"testing"
)

var _ = hex.EncodeToString
var _ = strings.Join

// generated by /verif: replay of the solver's counterexample for
// %s
func TestVerifReplay(t *testing.T) {
	defer func() {
		if r := recover(); r != nil {
			fmt.Printf("VERIF-REPLAY panic: %%v\n", r)
		}
	}()
	%s
%s	fmt.Printf("VERIF-REPLAY result: %%s\n", %s)
}
`, pkg.Name(), o.Name, call, uses, joined)
	testFile := filepath.Join(scratch, "replay_test.go")
	os.WriteFile(testFile, []byte(src), 0o644)
	rp["replay_test"] = src
	repo := envOr("VERIF_REPO", "/repo")
	rel := "./" + strings.TrimPrefix(strings.TrimPrefix(pkg.Path(), modPath), "/")
	rp["replay_package"] = rel
	_, tout := runOverlayTest(repo, scratch, rel, testFile, "TestVerifReplay")
	var line string
	for _, l := range strings.Split(tout, "\n") {
		if strings.HasPrefix(l, "VERIF-REPLAY ") {
			line = strings.TrimPrefix(l, "VERIF-REPLAY ")
		}
	}
	rp["replay_output"] = line
	if line == "" {
		rp["replay_log"] = tail(tout, 1500)
		return note("the replay test did not run to completion")
	}
	panicked := strings.HasPrefix(line, "panic: ")
	switch o.Kind {
	case "index", "slice", "nil", "type-assert", "neg-len", "nil-map-write", "panic", "close":
		if panicked {
			rp["replay"] = "confirmed on the real code: the call panics (" + strings.TrimPrefix(line, "panic: ") + ")"
			return true
		}
		return note("the solver's candidate input does not make the real code panic (spurious model or a different input is needed)")
	case "post":
		if panicked {
			return note("the real code panics on this input (%s): not a postcondition violation as such", line)
		}
		if !simpleRes || len(o.ResTerms) != len(resKinds) {
			return note("results are not plain data: the postcondition cannot be re-evaluated on the observed results")
		}
		// 3. pin inputs and observed results; the postcondition must be refuted for them
		var pins []string
		for _, p := range ps {
			switch p.kind {
			case "int":
				pins = append(pins, fmt.Sprintf("(= %s %s)", p.term, smtInt(p.ival)))
			case "bool":
				pins = append(pins, fmt.Sprintf("(= %s %v)", p.term, p.bval))
			case "string":
				pins = append(pins, pinString(p.term, p.sval))
			case "bytes":
				pins = append(pins, fmt.Sprintf("(= (slength %s) %d)", p.term, len(p.sval)))
				for i, c := range p.sval {
					if haveBytes {
						pins = append(pins, fmt.Sprintf("(= (select (select E!uint8@0 (sbase %s)) (+ (soff %s) %d)) %d)", p.term, p.term, i, c))
					}
				}
			}
		}
		parts := strings.Fields(strings.TrimPrefix(line, "result: "))
		if len(parts) != len(resKinds) {
			return note("unexpected replay output %q", line)
		}
		for i, k := range resKinds {
			t := o.ResTerms[i]
			v := parts[i]
			switch k {
			case "int":
				pins = append(pins, fmt.Sprintf("(= %s %s)", t, smtInt(strings.TrimPrefix(v, "int:"))))
			case "bool":
				pins = append(pins, fmt.Sprintf("(= %s %s)", t, strings.TrimPrefix(v, "bool:")))
			case "string":
				b, _ := hex.DecodeString(strings.TrimPrefix(v, "hex:"))
				pins = append(pins, pinString(t, b))
			default:
				return note("result %d is not plain data", i)
			}
		}
		pinned := base
		for _, p := range pins {
			pinned += "(assert " + p + ")\n"
		}
		a1 := strings.TrimSpace(strings.SplitN(solveText(scratch, "replay_pin1.smt2", pinned+"(check-sat)\n", 20), "\n", 2)[0])
		if a1 == "unsat" {
			return note("the observed execution (%s) is not the one the solver proposed: inputs and observed results contradict the encoding or the solver's path", line)
		}
		goal := strings.TrimSuffix(strings.TrimPrefix(goalLine, "(assert (not "), "))")
		a2 := strings.TrimSpace(strings.SplitN(solveText(scratch, "replay_pin2.smt2", pinned+"(assert "+goal+")\n(check-sat)\n", 20), "\n", 2)[0])
		if a2 == "unsat" {
			rp["replay"] = "confirmed on the real code: for this input the function returns " + strings.TrimPrefix(line, "result: ") + ", for which the postcondition is refuted"
			return true
		}
		return note("the postcondition is not refuted for the observed results (%s): spurious model", a2)
	}
	return note("obligations of kind %q are not replayed (no single call exhibits them)", o.Kind)
}

func parenType(t string) string {
	if strings.HasPrefix(t, "[]") || strings.HasPrefix(t, "*") {
		return "(" + t + ")"
	}
	return t
}

func tail(s string, n int) string {
	if len(s) <= n {
		return s
	}
	return s[len(s)-n:]
}

// replayFile re-runs the test stored in a replay file (./check replay <path>): exit 1 if the
// failing input still reproduces on the current tree, 0 otherwise.
func replayFile(path string) int {
	data, err := os.ReadFile(path)
	if err != nil {
		fmt.Println(err)
		return 2
	}
	var rp map[string]any
	if err := json.Unmarshal(data, &rp); err != nil {
		fmt.Println(err)
		return 2
	}
	fmt.Printf("obligation: %v\nreason: %v\n", rp["obligation"], rp["reason"])
	src, _ := rp["replay_test"].(string)
	pkg, _ := rp["replay_package"].(string)
	if src == "" || pkg == "" {
		fmt.Printf("no failing input was recorded for this report (%v); re-run: %v\n", rp["replay"], rp["how_to_rerun"])
		return 0
	}
	scratch := filepath.Join(envOr("VERIF_SCRATCH", "/var/tmp/verif-dev"), "replayfile")
	os.MkdirAll(scratch, 0o755)
	tf := filepath.Join(scratch, "replay_test.go")
	os.WriteFile(tf, []byte(src), 0o644)
	_, out := runOverlayTest(envOr("VERIF_REPO", "/repo"), scratch, pkg, tf, "TestVerifReplay")
	re := regexp.MustCompile(`(?m)^VERIF-REPLAY (.*)$`)
	m := re.FindStringSubmatch(out)
	if m == nil {
		fmt.Println("replay test did not complete:\n" + tail(out, 1500))
		return 2
	}
	fmt.Printf("input: %v\nrecorded: %v\nnow: %s\n", rp["replay_input"], rp["replay_output"], m[1])
	if m[1] == rp["replay_output"] {
		fmt.Println("the recorded behaviour reproduces on the current tree")
		return 1
	}
	fmt.Println("the behaviour differs from the recorded one")
	return 0
}

var _ = ssa.BuilderMode(0)
