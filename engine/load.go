package main

import (
	"sync"
	"fmt"
	"go/ast"
	"go/token"
	"go/types"
	"os"
	"sort"
	"strings"

	"golang.org/x/tools/go/packages"
	"golang.org/x/tools/go/ssa"
	"golang.org/x/tools/go/ssa/ssautil"
)

const modPath = "connectrpc.com/conformance"

type Program struct {
	prog     *ssa.Program
	fset     *token.FileSet
	pkgs     []*packages.Package
	spkgs    map[string]*ssa.Package
	tpkgs    map[string]*types.Package
	funcs    map[string]*ssa.Function
	reg      *Registry
	repo     string
	srcText  map[string][]string // file -> lines
	srcMu    sync.Mutex
	astFile  map[string]*ast.File
	pkgFiles map[string][]*ast.File
}

func goEnv() []string {
	return append(os.Environ(), "GOFLAGS=-mod=mod", "GOPROXY=off", "GOSUMDB=off", "GOTOOLCHAIN=local")
}

func loadProgram(repo string, patterns []string) (*Program, error) {
	cfg := &packages.Config{
		Mode:       packages.LoadAllSyntax,
		Dir:        repo,
		BuildFlags: []string{"-tags=verif"},
		Env:        goEnv(),
	}
	pkgs, err := packages.Load(cfg, patterns...)
	if err != nil {
		return nil, err
	}
	var errs []string
	packages.Visit(pkgs, nil, func(p *packages.Package) {
		if strings.HasPrefix(p.PkgPath, modPath) {
			for _, e := range p.Errors {
				errs = append(errs, e.Error())
			}
		}
	})
	if len(errs) > 0 {
		return nil, fmt.Errorf("package errors:\n%s", strings.Join(errs, "\n"))
	}
	prog, _ := ssautil.AllPackages(pkgs, ssa.InstantiateGenerics|ssa.GlobalDebug)
	prog.Build()
	P := &Program{prog: prog, pkgs: pkgs, spkgs: map[string]*ssa.Package{}, tpkgs: map[string]*types.Package{},
		funcs: map[string]*ssa.Function{}, repo: repo, srcText: map[string][]string{}, astFile: map[string]*ast.File{}, pkgFiles: map[string][]*ast.File{}}
	if len(pkgs) > 0 {
		P.fset = pkgs[0].Fset
	}
	for _, sp := range prog.AllPackages() {
		P.spkgs[sp.Pkg.Path()] = sp
		P.tpkgs[sp.Pkg.Path()] = sp.Pkg
	}
	for f := range ssautil.AllFunctions(prog) {
		k := funcKey(f)
		if k != "" {
			if old, ok := P.funcs[k]; ok && old.Synthetic == "" && f.Synthetic != "" {
				continue
			}
			P.funcs[k] = f
		}
	}
	packages.Visit(pkgs, nil, func(p *packages.Package) {
		if strings.HasPrefix(p.PkgPath, modPath) {
			for i, f := range p.Syntax {
				if i < len(p.CompiledGoFiles) {
					P.astFile[p.CompiledGoFiles[i]] = f
				}
				P.pkgFiles[p.PkgPath] = append(P.pkgFiles[p.PkgPath], f)
			}
		}
	})
	return P, nil
}

func funcPkg(f *ssa.Function) *types.Package {
	if f.Pkg != nil {
		return f.Pkg.Pkg
	}
	if o := f.Origin(); o != nil && o.Pkg != nil {
		return o.Pkg.Pkg
	}
	if f.Object() != nil {
		return f.Object().Pkg()
	}
	if f.Parent() != nil {
		return funcPkg(f.Parent())
	}
	return nil
}

// funcKey gives "pkgpath#RelName", e.g. "strings#(*Builder).WriteByte".
func funcKey(f *ssa.Function) string {
	pkg := funcPkg(f)
	if pkg == nil {
		return ""
	}
	return pkg.Path() + "#" + f.RelString(pkg)
}

// contractFor finds the contract of f (or of its generic origin).
func (P *Program) contractFor(f *ssa.Function) *Contract {
	if c := P.reg.Contracts[funcKey(f)]; c != nil {
		return c
	}
	if o := f.Origin(); o != nil {
		if c := P.reg.Contracts[funcKey(o)]; c != nil {
			return c
		}
	}
	return nil
}

func (P *Program) lookupFunc(key string) *ssa.Function {
	if f, ok := P.funcs[key]; ok && (f.TypeParams() == nil || f.TypeParams().Len() == 0 || len(f.TypeArgs()) > 0) {
		return f
	}
	// generic: find an instance whose origin has this key
	var cands []*ssa.Function
	for _, f := range P.funcs {
		if o := f.Origin(); o != nil && funcKey(o) == key && len(f.Blocks) > 0 {
			cands = append(cands, f)
		}
	}
	sort.Slice(cands, func(i, j int) bool { return cands[i].String() < cands[j].String() })
	if len(cands) > 0 {
		return cands[0]
	}
	return nil
}

func (P *Program) srcLine(pos token.Pos) string {
	if !pos.IsValid() {
		return ""
	}
	p := P.fset.Position(pos)
	P.srcMu.Lock()
	defer P.srcMu.Unlock()
	lines, ok := P.srcText[p.Filename]
	if !ok {
		data, err := os.ReadFile(p.Filename)
		if err == nil {
			lines = strings.Split(string(data), "\n")
		}
		P.srcText[p.Filename] = lines
	}
	if p.Line-1 < len(lines) && p.Line >= 1 {
		return strings.TrimSpace(lines[p.Line-1])
	}
	return ""
}

func (P *Program) posString(pos token.Pos) string {
	if !pos.IsValid() {
		return "-"
	}
	p := P.fset.Position(pos)
	fn := strings.TrimPrefix(p.Filename, P.repo+"/")
	return fmt.Sprintf("%s:%d:%d", fn, p.Line, p.Column)
}
