package main

import (
	"fmt"
	"go/types"
	"math/big"
	"sort"
	"strings"
)

// ---------------------------------------------------------------------------
// S-expression helpers. Terms are plain strings; sorts are strings.

func app(f string, args ...string) string {
	if len(args) == 0 {
		return f
	}
	return "(" + f + " " + strings.Join(args, " ") + ")"
}

func sAnd(xs ...string) string {
	var ys []string
	for _, x := range xs {
		if x == "true" || x == "" {
			continue
		}
		if x == "false" {
			return "false"
		}
		ys = append(ys, x)
	}
	switch len(ys) {
	case 0:
		return "true"
	case 1:
		return ys[0]
	}
	return app("and", ys...)
}

func sOr(xs ...string) string {
	var ys []string
	for _, x := range xs {
		if x == "false" || x == "" {
			continue
		}
		if x == "true" {
			return "true"
		}
		ys = append(ys, x)
	}
	switch len(ys) {
	case 0:
		return "false"
	case 1:
		return ys[0]
	}
	return app("or", ys...)
}

func sNot(x string) string {
	switch x {
	case "true":
		return "false"
	case "false":
		return "true"
	}
	if strings.HasPrefix(x, "(not ") && balancedInner(x[5:len(x)-1]) {
		return x[5 : len(x)-1]
	}
	return app("not", x)
}

// balancedInner reports whether s is a single balanced s-expression.
func balancedInner(s string) bool {
	depth := 0
	for i, c := range s {
		switch c {
		case '(':
			depth++
		case ')':
			depth--
			if depth == 0 && i != len(s)-1 {
				return false
			}
			if depth < 0 {
				return false
			}
		case ' ':
			if depth == 0 {
				return false
			}
		}
	}
	return depth == 0
}

func sImp(a, b string) string {
	if a == "true" {
		return b
	}
	if b == "true" || a == "false" {
		return "true"
	}
	return app("=>", a, b)
}

func sIte(c, a, b string) string {
	if c == "true" {
		return a
	}
	if c == "false" {
		return b
	}
	if a == b {
		return a
	}
	return app("ite", c, a, b)
}

func sEq(a, b string) string {
	if a == b {
		return "true"
	}
	return app("=", a, b)
}

func intLit(n int64) string {
	if n < 0 {
		return "(- " + big.NewInt(0).Neg(big.NewInt(n)).String() + ")"
	}
	return fmt.Sprint(n)
}

func bigLit(n *big.Int) string {
	if n.Sign() < 0 {
		return "(- " + big.NewInt(0).Neg(n).String() + ")"
	}
	return n.String()
}

func sanitize(s string) string {
	var b strings.Builder
	for _, c := range s {
		switch {
		case c >= 'a' && c <= 'z', c >= 'A' && c <= 'Z', c >= '0' && c <= '9', c == '_', c == '.', c == '!', c == '$':
			b.WriteRune(c)
		case c == '*':
			b.WriteString("$p")
		case c == '[':
			b.WriteString("$l")
		case c == ']':
			b.WriteString("$r")
		case c == '/':
			b.WriteString(".")
		case c == ' ':
		default:
			fmt.Fprintf(&b, "$%x", c)
		}
	}
	return b.String()
}

// ---------------------------------------------------------------------------
// World: global, per-run information about sorts, struct datatypes, heap
// components, string literals, uninterpreted helpers.

type Comp struct {
	ValTyp  types.Type // Go type of the stored values (fields, cells, slice elements), if known
	Name    string     // SMT base name
	Sort    string     // SMT sort of the whole component
	Kind    string     // field, cell, elems, mapdom, mapval, maplen, ghost, global, alloc
	KeySort string     // ghost components: sort of the key
}

type StructInfo struct {
	Sort   string
	Type   types.Type // named or struct type
	St     *types.Struct
	Fields []string // selector names
}

type World struct {
	subKinds map[string]int
	strAssoc bool
	structs     map[string]*StructInfo // by sort name
	structOrder []string
	structByTyp map[string]*StructInfo // by type string
	comps       map[string]*Comp
	compOrder   []string
	strLits     map[string]string // literal -> const name
	strOrder    []string
	extraDecls  map[string]string // name -> declaration text (uninterpreted functions etc.)
	extraOrder  []string
	axioms      []string // background axioms added by helpers (sound by construction)
	tparamSorts map[string]bool
	tagOf       map[string]int // dynamic type tags for interfaces
	tagTypes    []types.Type
	anon        int
}

func newWorld() *World {
	return &World{
		structs: map[string]*StructInfo{}, structByTyp: map[string]*StructInfo{},
		comps: map[string]*Comp{}, strLits: map[string]string{}, extraDecls: map[string]string{},
		tparamSorts: map[string]bool{}, tagOf: map[string]int{},
	}
}

func typeKey(t types.Type) string {
	return types.TypeString(t, func(p *types.Package) string { return p.Path() })
}

func shortTypeName(t types.Type) string {
	return sanitize(types.TypeString(t, func(p *types.Package) string { return p.Name() }))
}

// sortOf maps a Go type to an SMT sort.
func (w *World) sortOf(t types.Type) string {
	t = types.Unalias(t)
	switch u := t.(type) {
	case *types.Named:
		if st, ok := u.Underlying().(*types.Struct); ok {
			return w.structSort(u, st)
		}
		return w.sortOf(u.Underlying())
	case *types.Basic:
		switch {
		case u.Info()&types.IsBoolean != 0:
			return "Bool"
		case u.Info()&types.IsInteger != 0:
			return "Int"
		case u.Info()&types.IsString != 0:
			return "Str"
		case u.Info()&types.IsFloat != 0:
			return "Real"
		case u.Kind() == types.UnsafePointer:
			return "Int"
		case u.Kind() == types.UntypedNil:
			return "Int"
		}
		return "Int"
	case *types.Pointer, *types.Map, *types.Chan, *types.Signature:
		return "Int"
	case *types.Slice:
		return "Slice"
	case *types.Interface:
		return "Iface"
	case *types.Struct:
		return w.structSort(u, u)
	case *types.Array:
		return "(Array Int " + w.sortOf(u.Elem()) + ")"
	case *types.TypeParam:
		n := "TP!" + sanitize(u.Obj().Name())
		w.tparamSorts[n] = true
		return n
	case *types.Tuple:
		return "Tuple?"
	}
	return "Int"
}

func (w *World) structSort(t types.Type, st *types.Struct) string {
	key := typeKey(t)
	if si, ok := w.structByTyp[key]; ok {
		return si.Sort
	}
	var name string
	if n, ok := t.(*types.Named); ok {
		name = "S!" + shortTypeName(n)
	} else {
		w.anon++
		name = fmt.Sprintf("S!anon%d", w.anon)
	}
	for w.structs[name] != nil {
		name += "_"
	}
	si := &StructInfo{Sort: name, Type: t, St: st}
	w.structByTyp[key] = si
	w.structs[name] = si
	for i := 0; i < st.NumFields(); i++ {
		fname := sanitize(st.Field(i).Name())
		if fname == "_" {
			fname = fmt.Sprintf("_blank%d", i)
		}
		si.Fields = append(si.Fields, fmt.Sprintf("%s.%s", name, fname))
	}
	// make sure nested sorts are declared first
	for i := 0; i < st.NumFields(); i++ {
		w.sortOf(st.Field(i).Type())
	}
	w.structOrder = append(w.structOrder, name)
	return name
}

func (w *World) structInfo(t types.Type) *StructInfo {
	t = types.Unalias(t)
	st, ok := t.Underlying().(*types.Struct)
	if !ok {
		return nil
	}
	if _, isNamed := t.(*types.Named); !isNamed {
		t = st
	}
	w.structSort(t, st)
	return w.structByTyp[typeKey(t)]
}

func (w *World) mkStruct(si *StructInfo, fields []string) string {
	if len(fields) == 0 {
		return "mk!" + si.Sort
	}
	return app("mk!"+si.Sort, fields...)
}

// zero value of a Go type as an SMT term.
func (w *World) zero(t types.Type) string {
	t = types.Unalias(t)
	srt := w.sortOf(t)
	switch srt {
	case "Bool":
		return "false"
	case "Int":
		return "0"
	case "Real":
		return "0.0"
	case "Str":
		return w.strLit("")
	case "Slice":
		return "nilslice"
	case "Iface":
		return "nil!iface"
	}
	if si := w.structInfo(t); si != nil {
		var fs []string
		for i := 0; i < si.St.NumFields(); i++ {
			fs = append(fs, w.zero(si.St.Field(i).Type()))
		}
		return w.mkStruct(si, fs)
	}
	if a, ok := t.Underlying().(*types.Array); ok {
		return w.constArray(w.sortOf(a.Elem()), w.zero(a.Elem()))
	}
	if strings.HasPrefix(srt, "TP!") {
		w.declare("zero!"+srt, "(declare-const zero!"+srt+" "+srt+")")
		return "zero!" + srt
	}
	return "0"
}

func (w *World) declare(name, decl string) {
	if _, ok := w.extraDecls[name]; ok {
		return
	}
	w.extraDecls[name] = decl
	w.extraOrder = append(w.extraOrder, name)
}

func (w *World) strLit(s string) string {
	if n, ok := w.strLits[s]; ok {
		return n
	}
	n := fmt.Sprintf("str!%d", len(w.strLits))
	if s == "" {
		n = "str!empty"
	}
	w.strLits[s] = n
	w.strOrder = append(w.strOrder, s)
	return n
}

func (w *World) comp(name, sort, kind string) *Comp {
	if c, ok := w.comps[name]; ok {
		return c
	}
	c := &Comp{Name: name, Sort: sort, Kind: kind}
	w.comps[name] = c
	w.compOrder = append(w.compOrder, name)
	return c
}

// field component for struct type T (named), field index i.
func (w *World) fieldComp(t types.Type, i int) *Comp {
	si := w.structInfo(t)
	f := si.St.Field(i)
	fname := sanitize(f.Name())
	if fname == "_" {
		fname = fmt.Sprintf("_blank%d", i)
	}
	name := "F!" + strings.TrimPrefix(si.Sort, "S!") + "!" + fname
	c := w.comp(name, "(Array Int "+w.sortOf(f.Type())+")", "field")
	c.ValTyp = f.Type()
	return c
}

func (w *World) cellComp(t types.Type) *Comp {
	c := w.comp("P!"+shortTypeName(types.Unalias(t)), "(Array Int "+w.sortOf(t)+")", "cell")
	c.ValTyp = t
	return c
}

func (w *World) elemComp(t types.Type) *Comp {
	c := w.comp("E!"+shortTypeName(types.Unalias(t)), "(Array Int (Array Int "+w.sortOf(t)+"))", "elems")
	c.ValTyp = t
	return c
}

func (w *World) mapComps(m *types.Map) (dom, val, card *Comp) {
	k, v := w.sortOf(m.Key()), w.sortOf(m.Elem())
	n := shortTypeName(m.Key()) + "!" + shortTypeName(m.Elem())
	dom = w.comp("MD!"+n, "(Array Int (Array "+k+" Bool))", "mapdom")
	val = w.comp("MV!"+n, "(Array Int (Array "+k+" "+v+"))", "mapval")
	val.ValTyp = m.Elem()
	val.KeySort = k
	card = w.comp("ML!"+n, "(Array Int Int)", "maplen")
	return
}

func (w *World) typeTag(t types.Type) int {
	k := typeKey(t)
	if n, ok := w.tagOf[k]; ok {
		return n
	}
	n := len(w.tagOf) + 1
	w.tagOf[k] = n
	w.tagTypes = append(w.tagTypes, t)
	return n
}

// box / unbox functions for interface values of dynamic type t.
func (w *World) boxFns(t types.Type) (box, unbox string, tag int) {
	srt := w.sortOf(t)
	tag = w.typeTag(t)
	box = fmt.Sprintf("box!%d", tag)
	unbox = fmt.Sprintf("unbox!%d", tag)
	w.declare(box, fmt.Sprintf("(declare-fun %s (%s) Iface)\n(declare-fun %s (Iface) %s)\n"+
		"(assert (forall ((x %s)) (! (and (= (%s (%s x)) x) (= (itag (%s x)) %d)) :pattern ((%s x)))))\n"+
		"(assert (forall ((i Iface)) (! (=> (= (itag i) %d) (= (%s (%s i)) i)) :pattern ((%s i)))))",
		box, srt, unbox, srt, srt, unbox, box, box, tag, box, tag, box, unbox, unbox))
	// iref: the reference an interface value carries (0 if it carries none); used to state
	// that interface values only hold objects that already exist
	w.declare("iref", "(declare-fun iref (Iface) Int)")
	ref := "0"
	switch types.Unalias(t).Underlying().(type) {
	case *types.Pointer:
		w.needRoot()
		ref = "(root x)"
	case *types.Map, *types.Chan:
		ref = "x"
	case *types.Slice:
		ref = "(sbase x)"
	}
	w.declare("iref!"+box, fmt.Sprintf("(assert (forall ((x %s)) (! (= (iref (%s x)) %s) :pattern ((%s x)))))", srt, box, ref, box))
	return
}

// prelude renders all declarations needed before function-specific content.
// heapDecl controls whether version-0 heap components are declared here.
func (w *World) prelude() string {
	var b strings.Builder
	b.WriteString(basePrelude)
	if w.strAssoc {
		// concatenation is associative (follows from extensionality); opt-in per function
		// ("option strassoc") because the rewriting perturbs proofs that index into appends
		b.WriteString("(assert (forall ((a Str) (b Str) (c Str)) (! (= (sconcat (sconcat a b) c) (sconcat a (sconcat b c))) :pattern ((sconcat (sconcat a b) c)))))\n")
	}
	names := make([]string, 0, len(w.tparamSorts))
	for n := range w.tparamSorts {
		names = append(names, n)
	}
	sort.Strings(names)
	for _, n := range names {
		fmt.Fprintf(&b, "(declare-sort %s 0)\n", n)
	}
	for _, n := range w.structOrder {
		si := w.structs[n]
		fmt.Fprintf(&b, "(declare-datatypes ((%s 0)) (((mk!%s", n, n)
		for i, f := range si.Fields {
			fmt.Fprintf(&b, " (%s %s)", f, w.sortOf(si.St.Field(i).Type()))
		}
		b.WriteString("))))\n")
	}
	for _, s := range w.strOrder {
		n := w.strLits[s]
		fmt.Fprintf(&b, "(declare-const %s Str)\n(assert (= (slen %s) %d))\n", n, n, len(s))
		for i := 0; i < len(s); i++ {
			fmt.Fprintf(&b, "(assert (= (sat %s %d) %d))\n", n, i, s[i])
		}
	}
	if len(w.strOrder) > 1 {
		b.WriteString("(assert (distinct")
		for _, s := range w.strOrder {
			b.WriteString(" " + w.strLits[s])
		}
		b.WriteString("))\n")
	}
	if n, ok := w.strLits[""]; ok {
		fmt.Fprintf(&b, "(assert (forall ((s Str)) (! (=> (= (slen s) 0) (= s %s)) :pattern ((slen s)))))\n", n)
	}
	for _, n := range w.extraOrder {
		b.WriteString(w.extraDecls[n])
		b.WriteString("\n")
	}
	for _, a := range w.axioms {
		fmt.Fprintf(&b, "(assert %s)\n", a)
	}
	return b.String()
}

const basePrelude = `(declare-sort Str 0)
(declare-fun slen (Str) Int)
(declare-fun sat (Str Int) Int)
(assert (forall ((s Str)) (! (>= (slen s) 0) :pattern ((slen s)))))
(assert (forall ((s Str) (i Int)) (! (and (<= 0 (sat s i)) (<= (sat s i) 255)) :pattern ((sat s i)))))
(declare-fun sconcat (Str Str) Str)
(assert (forall ((a Str) (b Str)) (! (= (slen (sconcat a b)) (+ (slen a) (slen b))) :pattern ((sconcat a b)))))
(assert (forall ((a Str) (b Str) (i Int)) (! (= (sat (sconcat a b) i) (ite (< i (slen a)) (sat a i) (sat b (- i (slen a))))) :pattern ((sat (sconcat a b) i)))))
(assert (forall ((a Str) (b Str)) (! (and (=> (= (slen b) 0) (= (sconcat a b) a)) (=> (= (slen a) 0) (= (sconcat a b) b))) :pattern ((sconcat a b)))))
(declare-fun ssub (Str Int Int) Str)
(assert (forall ((a Str) (lo Int) (hi Int)) (! (=> (and (<= 0 lo) (<= lo hi) (<= hi (slen a))) (= (slen (ssub a lo hi)) (- hi lo))) :pattern ((ssub a lo hi)))))
(assert (forall ((a Str) (lo Int) (hi Int) (i Int)) (! (=> (and (<= 0 lo) (<= lo hi) (<= hi (slen a)) (<= 0 i) (< i (- hi lo))) (= (sat (ssub a lo hi) i) (sat a (+ lo i)))) :pattern ((sat (ssub a lo hi) i)))))
(assert (forall ((a Str)) (! (= (ssub a 0 (slen a)) a) :pattern ((ssub a 0 (slen a))))))
(declare-fun sbyte (Int) Str)
(assert (forall ((c Int)) (! (and (= (slen (sbyte c)) 1) (=> (and (<= 0 c) (<= c 255)) (= (sat (sbyte c) 0) c))) :pattern ((sbyte c)))))
(declare-fun slt (Str Str) Bool)
(declare-fun strext (Str Str) Bool)
(declare-fun strdiff (Str Str) Int)
(assert (forall ((a Str) (b Str)) (! (=> (strext a b) (= a b)) :pattern ((strext a b)))))
(assert (forall ((a Str) (b Str)) (! (=> (and (= (slen a) (slen b)) (=> (and (<= 0 (strdiff a b)) (< (strdiff a b) (slen a))) (= (sat a (strdiff a b)) (sat b (strdiff a b))))) (strext a b)) :pattern ((strext a b)))))
(declare-fun idx (Int Int) Int)
(assert (forall ((o Int) (i Int)) (! (= (idx o i) (+ o i)) :pattern ((idx o i)))))
(declare-datatypes ((Slice 0)) (((mk-slice (sbase Int) (soff Int) (slength Int) (scap Int)))))
(define-fun nilslice () Slice (mk-slice 0 0 0 0))
(define-fun wfslice ((s Slice)) Bool (and (>= (sbase s) 0) (>= (soff s) 0) (>= (slength s) 0) (>= (scap s) (slength s)) (<= (scap s) 9223372036854775807) (=> (= (sbase s) 0) (and (= (scap s) 0) (= (soff s) 0)))))
(declare-sort Iface 0)
(declare-fun itag (Iface) Int)
(declare-const nil!iface Iface)
(assert (= (itag nil!iface) 0))
(assert (forall ((i Iface)) (! (and (>= (itag i) 0) (=> (= (itag i) 0) (= i nil!iface))) :pattern ((itag i)))))
(declare-fun bitand (Int Int) Int)
(declare-fun bitor (Int Int) Int)
(declare-fun bitxor (Int Int) Int)
(declare-fun bitnot (Int) Int)
(declare-fun shl (Int Int) Int)
(declare-fun shr (Int Int) Int)
`

// constArray returns an array term of the given element sort that maps every index to zero.
func (w *World) constArray(elemSort, zero string) string {
	switch zero {
	case "0", "false", "0.0":
		return "((as const (Array Int " + elemSort + ")) " + zero + ")"
	}
	n := "zeroarr!" + sanitize(elemSort)
	w.declare(n, fmt.Sprintf("(declare-const %s (Array Int %s))\n(assert (forall ((i Int)) (! (= (select %s i) %s) :pattern ((select %s i)))))", n, elemSort, n, zero, n))
	return n
}

func (w *World) declareStrOfArr() {
	w.declare("strofarr", "(declare-fun strofarr ((Array Int Int) Int Int) Str)\n"+
		"(assert (forall ((a (Array Int Int)) (o Int) (n Int)) (! (=> (>= n 0) (= (slen (strofarr a o n)) n)) :pattern ((strofarr a o n)))))\n"+
		"(assert (forall ((a (Array Int Int)) (o Int) (n Int) (i Int)) (! (=> (and (<= 0 i) (< i n)) (= (sat (strofarr a o n) i) (select a (+ o i)))) :pattern ((sat (strofarr a o n) i)))))")
}


// subKindID numbers the embedded-field address functions (sub!T!f).
func (w *World) subKindID(name string) int {
	if w.subKinds == nil {
		w.subKinds = map[string]int{}
	}
	if id, ok := w.subKinds[name]; ok {
		return id
	}
	id := len(w.subKinds) + 1
	w.subKinds[name] = id
	return id
}
