package main

import (
	"encoding/json"
	"flag"
	"fmt"
	"go/token"
	"os"
	"os/exec"
	"path/filepath"
	"sort"
	"strconv"
	"strings"
	"sync"
	"time"

	"golang.org/x/tools/go/ssa"
)

func tokenPosOf(b *ssa.BasicBlock) token.Pos {
	for _, in := range b.Instrs {
		if in.Pos().IsValid() {
			return in.Pos()
		}
	}
	return token.NoPos
}

type PropConfig struct {
	ID        string   `json:"id"`
	Functions []string `json:"functions"`
	Lemmas    []string `json:"lemmas,omitempty"`
	// Bounded stand-ins (labelled, never counted as proved)
	Bounded []struct {
		Name  string `json:"name"`
		Bound string `json:"bound"`
		What  string `json:"what"`
	} `json:"bounded,omitempty"`
	Assumptions []string `json:"assumptions,omitempty"`
	// Bounded validations of assumed contracts (Go tests injected with -overlay; thorough tier)
	Validations []struct {
		Name string `json:"name"`
		Pkg  string `json:"pkg"`
		File string `json:"file"`
		Run  string `json:"run"`
		What string `json:"what"`
	} `json:"validations,omitempty"`
	QuickTimeout    int      `json:"quick_timeout,omitempty"`
	ThoroughTimeout int      `json:"thorough_timeout,omitempty"`
	// functions and lemmas that are verified in the thorough tier only (neighbouring code the
	// property also depends on, under contract for another property's quick check)
	ThoroughFunctions []string `json:"thorough_functions,omitempty"`
	ThoroughLemmas    []string `json:"thorough_lemmas,omitempty"`
	NotCovered      []string `json:"not_covered,omitempty"`
}

type KnownFinding struct {
	Property   string `json:"property"`
	Obligation string `json:"obligation"`
	Status     string `json:"status"` // open | fixed
	Commit     string `json:"commit,omitempty"`
	What       string `json:"what"`
	Witness    string `json:"witness,omitempty"`
}

type KnownFindings struct {
	Findings []KnownFinding `json:"findings"`
	Fixed    []string       `json:"fixed,omitempty"`
}

func verifRoot() string { return envOr("VERIF_ROOT", "/verif") }

func loadKnown() *KnownFindings {
	kf := &KnownFindings{}
	data, err := os.ReadFile(filepath.Join(verifRoot(), "known_findings.json"))
	if err == nil {
		json.Unmarshal(data, kf)
	}
	return kf
}

func cmdCheck(args []string) int {
	fs := flag.NewFlagSet("check", flag.ExitOnError)
	tier := fs.String("tier", envOr("VERIF_TIER", "quick"), "quick|thorough")
	var id string
	if len(args) > 0 && !strings.HasPrefix(args[0], "-") {
		id = args[0]
		args = args[1:]
	}
	fs.Parse(args)
	if id == "" && fs.NArg() > 0 {
		id = fs.Arg(0)
	}
	if id == "" {
		usage()
	}
	t0 := time.Now()
	seed, _ := strconv.Atoi(envOr("VERIF_SEED", "1"))
	root := verifRoot()
	var cfg PropConfig
	data, err := os.ReadFile(filepath.Join(root, "props", id+".json"))
	if err != nil {
		fmt.Fprintln(os.Stderr, "no property config:", err)
		return 2
	}
	if err := json.Unmarshal(data, &cfg); err != nil {
		fmt.Fprintln(os.Stderr, "bad property config:", err)
		return 2
	}
	timeout := 10
	if cfg.QuickTimeout > 0 {
		timeout = cfg.QuickTimeout
	}
	if *tier == "thorough" {
		timeout = 60
		if cfg.ThoroughTimeout > 0 {
			timeout = cfg.ThoroughTimeout
		}
		cfg.Functions = append(cfg.Functions, cfg.ThoroughFunctions...)
		cfg.Lemmas = append(cfg.Lemmas, cfg.ThoroughLemmas...)
	}
	scratch := envOr("VERIF_SCRATCH", fmt.Sprintf("/var/tmp/verif-%d", os.Getpid()))
	os.MkdirAll(scratch, 0o755)
	if os.Getenv("VERIF_KEEP") == "" {
		defer os.RemoveAll(scratch)
	}
	P := setup(pkgsOfKeys(cfg.Functions))
	opts := &runOpts{timeout: timeout, seed: seed, workdir: scratch, jobs: 6}
	results := make([]*FnResult, len(cfg.Functions)+len(cfg.Lemmas))
	var wg sync.WaitGroup
	fsem := make(chan struct{}, 4)
	for i, k := range cfg.Functions {
		wg.Add(1)
		go func(i int, k string) {
			defer wg.Done()
			fsem <- struct{}{}
			defer func() { <-fsem }()
			defer func() {
				if r := recover(); r != nil {
					results[i] = &FnResult{Key: k, Display: k, Errors: []string{fmt.Sprintf("the verifier could not process this function: %v", r)}}
				}
			}()
			results[i] = verifyFunction(P, k, opts)
		}(i, k)
	}
	for i, l := range cfg.Lemmas {
		wg.Add(1)
		go func(i int, l string) {
			defer wg.Done()
			fsem <- struct{}{}
			defer func() { <-fsem }()
			defer func() {
				if r := recover(); r != nil {
					results[len(cfg.Functions)+i] = &FnResult{Key: "lemma " + l, Display: "lemma." + l, Errors: []string{fmt.Sprintf("the verifier could not process this lemma: %v", r)}}
				}
			}()
			results[len(cfg.Functions)+i] = verifyLemma(P, l, opts)
		}(i, l)
	}
	wg.Wait()
	proved := map[string]bool{}
	for _, l := range cfg.Lemmas {
		proved[l] = true
	}
	lemmaAssumed := map[string]bool{}
	for _, r := range results {
		for _, l := range r.Lemmas {
			if !proved[l] {
				lemmaAssumed[l] = true
			}
		}
	}

	known := loadKnown()
	openKF := map[string]KnownFinding{}
	for _, k := range known.Findings {
		if k.Property == id && k.Status == "open" {
			openKF[k.Obligation] = k
		}
	}
	replayDir := filepath.Join(root, "replay", id)
	os.RemoveAll(replayDir)
	var violations []string
	var kfPrinted []string
	total, nproved := 0, 0
	byBackend := map[string]int{}
	var solverTime float64
	type slow struct {
		Name string  `json:"name"`
		T    float64 `json:"seconds"`
		By   string  `json:"solver"`
	}
	var slowest []slow
	var samples []any
	var fnNames []string
	notes := map[string]bool{}
	unmod := map[string]bool{}
	externs := map[string]bool{}
	axioms := map[string]bool{}
	inlined := map[string]bool{}
	vac := map[string]string{}
	kindCount := map[string]int{}
	exit := 0
	var curObl *Obl
	var curRes *FnResult
	report := func(obl string, fn string, why string, detail string, model string, script string) {
		os.MkdirAll(replayDir, 0o755)
		path := filepath.Join(replayDir, shortName(obl, 100)+".json")
		rp := map[string]any{"property": id, "obligation": obl, "function": fn, "reason": why, "contract_clause": detail,
			"solver_output": model, "how_to_rerun": fmt.Sprintf("cd /verif && ./check %s %s", id, *tier)}
		if script != "" {
			if data, err := os.ReadFile(script); err == nil && len(data) < 3<<20 {
				sp := strings.TrimSuffix(path, ".json") + ".smt2"
				os.WriteFile(sp, data, 0o644)
				rp["smt_script"] = sp
			}
		}
		rep := false
		if curObl != nil && curRes != nil && curObl.Name == obl {
			rep = replayObligation(P, curRes, curObl, rp, filepath.Join(opts.workdir, "replay-"+shortName(obl, 60)))
		} else {
			rp["replay"] = "not attempted: no single call exhibits this report"
		}
		data, _ := json.MarshalIndent(rp, "", " ")
		os.WriteFile(path, data, 0o644)
		line := fmt.Sprintf("VIOLATION property=%s replay=%s obligation=%q", id, path, obl)
		if !rep {
			line += " no-failing-input-found"
		}
		violations = append(violations, line)
	}
	for _, r := range results {
		fnNames = append(fnNames, r.Key)
		for _, e := range r.Errors {
			exit = 1
			report(r.Key+"/contract-error", r.Key, "contract could not be applied to the current code: "+e, "", "", "")
		}
		if r.Contract == nil && len(r.Errors) == 0 {
			exit = 1
			report(r.Key+"/no-contract", r.Key, "function is listed for this property but has no contract in the //go:build verif files", "", "", "")
		}
		if r.Vacuity == "unsat" {
			exit = 1
			report(r.Key+"/vacuity", r.Key, "assumptions of the function are contradictory (vacuous proof) "+strings.Join(r.VacuousAt, ","), "", "", "")
		}
		vac[r.Display] = r.Vacuity
		if len(r.Obls) == 0 && len(r.Errors) == 0 {
			exit = 1
			report(r.Key+"/no-obligations", r.Key, "no obligations generated (vacuous check)", "", "", "")
		}
		for _, n := range r.Notes {
			notes[r.Display+": "+n] = true
		}
		for _, n := range r.Unmod {
			unmod[n] = true
		}
		for _, n := range r.Externs {
			externs[n] = true
		}
		for _, n := range r.Axioms {
			axioms[n] = true
		}
		for _, n := range r.Inlines {
			inlined[n] = true
		}
		for _, o := range r.Obls {
			kindCount[o.Kind]++
			solverTime += o.Time
			if kf, ok := openKF[o.Name]; ok {
				if o.Status != "proved" {
					kfPrinted = append(kfPrinted, fmt.Sprintf("KNOWN-FINDING: property=%s %s [%s]", id, kf.What, o.Name))
					continue
				}
				// obligation listed as an open finding now passes: not an alarm, but say so
				fmt.Printf("note: known finding %q no longer reproduces\n", o.Name)
			}
			total++
			if o.Status == "proved" {
				nproved++
				byBackend[o.Solver]++
				slowest = append(slowest, slow{o.Name, o.Time, o.Solver})
				if len(samples) < 6 && (o.Kind == "post" || o.Kind == "inv-keep" || len(samples) < 2) {
					samples = append(samples, map[string]any{"obligation": o.Name, "kind": o.Kind, "clause": o.Detail, "solver": o.Solver, "seconds": o.Time, "at": P.posString(o.Pos)})
				}
			} else {
				exit = 1
				curObl, curRes = o, r
				report(o.Name, r.Key, "obligation not discharged ("+o.Status+") at "+P.posString(o.Pos), o.Detail, o.Model, o.Script)
				curObl, curRes = nil, nil
			}
		}
	}
	// bounded validations of assumed contracts (never counted as proof)
	var boundedRuns []map[string]any
	for _, v := range cfg.Validations {
		if *tier != "thorough" {
			boundedRuns = append(boundedRuns, map[string]any{"name": v.Name, "what": v.What, "status": "not run in quick tier"})
			continue
		}
		ok, out := runOverlayTest(P.repo, scratch, v.Pkg, v.File, v.Run)
		st := "passed"
		if !ok {
			st = "FAILED"
			exit = 1
			report("validation/"+v.Name, v.File, "bounded validation of an assumed contract failed: "+v.What, "", out, "")
		}
		boundedRuns = append(boundedRuns, map[string]any{"name": v.Name, "what": v.What, "status": st, "output": firstLines(out, 6)})
	}
	sort.Slice(slowest, func(i, j int) bool { return slowest[i].T > slowest[j].T })
	if len(slowest) > 5 {
		slowest = slowest[:5]
	}
	keys := func(m map[string]bool) []string {
		var out []string
		for k := range m {
			out = append(out, k)
		}
		sort.Strings(out)
		return out
	}
	trusted := []string{"go/ssa (x/tools v0.29.0) as front end; SSA->SMT translation of /verif/engine", "z3 5.1.0, z3 4.8.12, cvc5 1.0.3 (unsat answers)",
		"mathematical integers with in-range guards for machine arithmetic", "mutex = mutual exclusion; no other concurrency reasoning"}
	for _, x := range keys(externs) {
		trusted = append(trusted, "assumed contract: "+x)
	}
	for _, x := range keys(axioms) {
		trusted = append(trusted, "assumed axiom: "+x)
	}
	for _, x := range keys(lemmaAssumed) {
		trusted = append(trusted, "lemma used but proved under another property's check: "+x)
	}
	assumptions := append([]string{}, cfg.Assumptions...)
	for _, x := range keys(unmod) {
		assumptions = append(assumptions, "unmodelled call (result and heap havocked): "+x)
	}
	for _, x := range keys(notes) {
		if strings.Contains(x, "(assumed)") {
			assumptions = append(assumptions, x)
		}
	}
	for _, x := range cfg.NotCovered {
		assumptions = append(assumptions, "not covered: "+x)
	}
	if len(samples) == 0 {
		samples = append(samples, "none")
	}
	ev := map[string]any{
		"property_id": id, "tier": *tier, "seed": seed, "level": "proof",
		"coverage": map[string]any{
			"obligations": total, "discharged": nproved, "lemmas_proved": cfg.Lemmas,
			"checker_cmd":              fmt.Sprintf("/verif/bin/govc check %s --tier %s", id, *tier),
			"trusted_base":             trusted,
			"samples":                  samples,
			"functions_under_contract": fnNames,
			"by_backend":               byBackend,
			"by_kind":                  kindCount,
			"solver_time_s":            solverTime,
			"slowest":                  slowest,
			"abstracted":               keys(notes),
			"unmodelled_calls":         keys(unmod),
			"inlined_callees":          keys(inlined),
			"vacuity":                  vac,
			"bounded":                  cfg.Bounded,
			"bounded_validations":      boundedRuns,
			"known_findings_printed":   kfPrinted,
			"contract_files":           P.reg.Files,
		},
		"assumptions": assumptions,
		"wall_s":      time.Since(t0).Seconds(),
		"violations":  len(violations),
	}
	os.MkdirAll(filepath.Join(root, "evidence"), 0o755)
	data, _ = json.MarshalIndent(ev, "", " ")
	os.WriteFile(filepath.Join(root, "evidence", id+".json"), data, 0o644)
	for _, l := range kfPrinted {
		fmt.Println(l)
	}
	for _, l := range violations {
		fmt.Println(l)
	}
	fmt.Printf("%s %s: %d/%d obligations discharged over %d functions, %d known findings, %d violations, %.1fs\n",
		id, *tier, nproved, total, len(results), len(kfPrinted), len(violations), time.Since(t0).Seconds())
	return exit
}

// runOverlayTest runs one Go test file against /repo without writing into it.
func runOverlayTest(repo, scratch, pkg, file, run string) (bool, string) {
	dst := filepath.Join(repo, strings.TrimPrefix(pkg, "./"), "zz_verif_overlay_test.go")
	ov := map[string]any{"Replace": map[string]string{dst: file}}
	data, _ := json.Marshal(ov)
	ovf := filepath.Join(scratch, "overlay_"+shortName(run, 40)+".json")
	if err := os.WriteFile(ovf, data, 0o644); err != nil {
		return false, err.Error()
	}
	cmd := exec.Command("go", "test", "-overlay", ovf, "-vet=off", "-timeout", "120s", "-count=1", "-v", "-run", "^"+run+"$", pkg)
	cmd.Dir = repo
	cmd.Env = goEnv()
	out, err := cmd.CombinedOutput()
	return err == nil, string(out)
}
