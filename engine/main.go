package main

import (
	"flag"
	"fmt"
	"os"
	"sort"
	"strings"
)

func usage() {
	fmt.Fprintln(os.Stderr, "usage: govc fn [-t sec] [-keep] <pkgpath#Func>... | govc check <Cxx> [--tier quick|thorough] | govc loops <key>")
	os.Exit(2)
}

func envOr(k, d string) string {
	if v := os.Getenv(k); v != "" {
		return v
	}
	return d
}

func setup(patterns []string) *Program {
	repo := envOr("VERIF_REPO", "/repo")
	P, err := loadProgram(repo, patterns)
	if err != nil {
		fmt.Fprintln(os.Stderr, "load error:", err)
		os.Exit(3)
	}
	P.reg = newRegistry()
	if err := P.reg.loadAll(envOr("VERIF_EXTERN", "/verif/contracts/extern"), repo, modPath); err != nil {
		fmt.Fprintln(os.Stderr, "contract error:", err)
		os.Exit(3)
	}
	return P
}

func pkgsOfKeys(keys []string) []string {
	seen := map[string]bool{}
	var out []string
	for _, k := range keys {
		p := k
		if strings.HasPrefix(k, "lemma:") {
			continue
		}
		if i := strings.Index(k, "#"); i >= 0 {
			p = k[:i]
		}
		if !seen[p] {
			seen[p] = true
			out = append(out, p)
		}
	}
	sort.Strings(out)
	return out
}

func main() {
	if len(os.Args) < 2 {
		usage()
	}
	switch os.Args[1] {
	case "replay":
		if len(os.Args) < 3 {
			usage()
		}
		os.Exit(replayFile(os.Args[2]))
	case "fn":
		fs := flag.NewFlagSet("fn", flag.ExitOnError)
		t := fs.Int("t", 10, "timeout per obligation (s)")
		keep := fs.Bool("keep", true, "keep smt files")
		v := fs.Bool("v", false, "verbose")
		only := fs.String("only", "", "substring filter on obligation names to print")
		fs.Parse(os.Args[2:])
		keys := fs.Args()
		P := setup(pkgsOfKeys(keys))
		opts := &runOpts{timeout: *t, seed: 1, workdir: envOr("VERIF_SCRATCH", "/var/tmp/verif-dev"), keep: *keep, verbose: *v}
		os.MkdirAll(opts.workdir, 0o755)
		bad := 0
		for _, k := range keys {
			var r *FnResult
			if strings.HasPrefix(k, "lemma:") {
				r = verifyLemma(P, strings.TrimPrefix(k, "lemma:"), opts)
			} else {
				r = verifyFunction(P, k, opts)
			}
			bad += printFnResult(r, *v, *only)
		}
		if bad > 0 {
			os.Exit(1)
		}
	case "loops":
		keys := os.Args[2:]
		P := setup(pkgsOfKeys(keys))
		for _, k := range keys {
			fn := P.lookupFunc(k)
			if fn == nil {
				fmt.Println("not found:", k)
				continue
			}
			fr := &frame{fn: fn}
			fr.computeLoops()
			for h, li := range fr.loops {
				fmt.Printf("%s loop %d: header block %d (%s) at %s\n", k, li.ordinal, h.Index, h.Comment, P.posString(tokenPosOf(h)))
			}
		}
	case "sweep":
		fs := flag.NewFlagSet("sweep", flag.ExitOnError)
		t := fs.Int("t", 3, "timeout per obligation (s)")
		match := fs.String("match", "", "substring filter on function names")
		fs.Parse(os.Args[2:])
		pk := fs.Args()
		P := setup(pk)
		opts := &runOpts{timeout: *t, seed: 1, workdir: envOr("VERIF_SCRATCH", "/var/tmp/verif-dev"), jobs: 14}
		var keys []string
		for k, f := range P.funcs {
			for _, p := range pk {
				if strings.HasPrefix(k, p+"#") && len(f.Blocks) > 0 && f.Synthetic == "" && strings.Contains(k, *match) {
					keys = append(keys, k)
				}
			}
		}
		sort.Strings(keys)
		for _, k := range keys {
			func() {
				defer func() {
					if r := recover(); r != nil {
						fmt.Printf("== %s: ENGINE PANIC: %v\n", k, r)
					}
				}()
				r := verifyFunction(P, k, opts)
				printFnResult(r, false, "")
			}()
		}
	case "check":
		os.Exit(cmdCheck(os.Args[2:]))
	default:
		usage()
	}
}

func printFnResult(r *FnResult, verbose bool, only string) int {
	bad := 0
	fmt.Printf("== %s (%s): %d obligations, %d loops, vacuity=%s\n", r.Display, r.Key, len(r.Obls), r.Loops, r.Vacuity)
	for _, e := range r.Errors {
		fmt.Println("   ERROR:", e)
		bad++
	}
	for _, o := range r.Obls {
		if only != "" && !strings.Contains(o.Name, only) {
			continue
		}
		if o.Status != "proved" {
			bad++
			fmt.Printf("   %-8s %s  [%s %.2fs] %s\n      at %s  %s\n", strings.ToUpper(o.Status), o.Name, o.Solver, o.Wall, o.Detail, o.PosStr, o.Script)
		} else if verbose {
			fmt.Printf("   ok       %s  [%s %.2fs]\n", o.Name, o.Solver, o.Time)
		}
	}
	if verbose || true {
		for _, n := range r.Notes {
			fmt.Println("   note:", n)
		}
		for _, n := range r.Unmod {
			fmt.Println("   unmodelled call:", n)
		}
		if verbose {
			for _, n := range r.Externs {
				fmt.Println("   assumed extern:", n)
			}
			for _, n := range r.Inlines {
				fmt.Println("   inlined:", n)
			}
		}
	}
	if r.Vacuity == "unsat" {
		fmt.Println("   VACUOUS: assumptions are contradictory or no return is reachable", r.VacuousAt)
		bad++
	}
	return bad
}
