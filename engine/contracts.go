package main

import (
	"bufio"
	"fmt"
	"os"
	"path/filepath"
	"regexp"
	"sort"
	"strconv"
	"strings"
)

type Clause struct {
	Assumed bool // postcondition used by callers but not checked against the body (listed as an assumption)
	Text    string
	Expr    *CExpr
	Label   string
	Src     string // file:line
}

type Contract struct {
	Key       string // pkgpath#relname
	Pkg       string
	Requires  []*Clause
	Ensures   []*Clause
	Modifies  []string
	HasMod    bool
	// Unshared: components assumed not to be written by other goroutines at this function's
	// synchronisation points (select, receive): they survive the havoc there. An assumption.
	Unshared []string
	Loops     map[int][]*Clause
	LoopMods  map[int][]string
	Options   map[string]string
	Trusted   bool // assumed, body not verified (externs)
	Pure      bool // no effect on the modelled heap
	Src       string
	Dead      []string // anchors of returns that are expected to be unreachable
	// ReturnsAfter: every return must be dominated by a statement on a line containing After,
	// unless it is dominated by a statement on a line containing one of Unless
	ReturnsAfter []*ReturnsAfter
	// ThenReturns: a call on a line containing the anchor is the last thing the function does
	// before returning (only deferred calls may follow)
	ThenReturns []string
	AssertsAt []*AssertAt // in-body assertions, attached to the statement whose source line contains Anchor
}

type ReturnsAfter struct {
	After  string
	Unless []string
	Src    string
}

type AssertAt struct {
	Assume bool // an explicit, listed assumption instead of an obligation
	Anchor string
	Nth    int // if > 0: the Nth statement (in block order) whose source line contains Anchor
	Clause *Clause
	Used   bool
	// Snapshot: when set, the clause is not asserted; its value at the anchor is bound to this
	// name for later assert_at clauses of the same function ("snapshot_at")
	Snapshot string
}

type SpecFn struct {
	Name      string
	Pkg       string
	Params    []CBinder
	Ret       string
	Body      *CExpr // nil => uninterpreted
	Src       string
	Decreases *CExpr
	Opaque    bool
	Macro     bool // emitted as a define-fun macro (must not be recursive)
}

type GhostDecl struct {
	Name    string
	Pkg     string
	KeyType string
	ValType string
	Src     string
}

type Axiom struct {
	Name string
	Pkg  string
	Expr *CExpr
	Text string
	Src  string
}

// MapInv is an invariant on every value stored in any map of the given type
// (checked at each map update, assumed at each lookup / iteration step).
type MapInv struct {
	TypeText string
	Pkg      string
	Expr     *CExpr
	Text     string
	Src      string
	// Only: when non-empty, the invariant is assumed only inside the named functions
	// (display names without package, e.g. "runTestCasesForServer")
	Only []string
}

// appliesTo reports whether the invariant is assumed inside function fn (display name).
func (mi *MapInv) appliesTo(fn string) bool {
	if len(mi.Only) == 0 {
		return true
	}
	if i := strings.Index(fn, "."); i >= 0 {
		fn = fn[i+1:]
	}
	for _, o := range mi.Only {
		if o == fn || strings.HasPrefix(fn, o+"$") {
			return true
		}
	}
	return false
}

// splitOnly splits "T in f, g" into T and [f g].
func splitOnly(tt string) (string, []string) {
	t, fs, ok := strings.Cut(tt, " in ")
	if !ok {
		return strings.TrimSpace(tt), nil
	}
	var out []string
	for _, f := range strings.Split(fs, ",") {
		out = append(out, strings.TrimSpace(f))
	}
	return strings.TrimSpace(t), out
}

// Guard: fields of a struct type that may only be accessed while its mutex field is held.
type Guard struct {
	TypeText string
	Pkg      string
	GrowOnly map[string]bool // map fields written "name+": never reassigned once set, keys never deleted
	Fields   []string
	Mutex    string
	Src      string
}

// Monitor: an invariant over the state guarded by a mutex; it may be assumed right
// after Lock and must hold again at every Unlock.
type Monitor struct {
	TypeText string
	Pkg      string
	Mutex    string
	Expr     *CExpr
	Text     string
	Src      string
}

// Lemma: a statement about spec functions proved by induction; once proved it is
// available to every obligation as a quantified fact.
type Lemma struct {
	Name      string
	Pkg       string
	Params    []CBinder
	Requires  []*Clause
	Ensures   []*Clause
	Inducts   []*LemmaInduct // induction hypotheses: the lemma at smaller arguments
	Decreases *CExpr
	Src       string
	// LemmaOnly: offered only while proving other lemmas, never in the VC of a function
	LemmaOnly bool
}

type LemmaInduct struct {
	Args []*CExpr
	When *CExpr
	Text string
}

type Registry struct {
	PkgAlias   map[string]string // pkgalias name -> import path
	ElemInvs   []*MapInv // invariants on every element stored in any slice of the given type
	FrameSets  map[string][]string
	Lemmas     map[string]*Lemma
	LemmaOrder []string
	Monitors   []*Monitor
	Guards     []*Guard
	MapInvs    []*MapInv
	Contracts  map[string]*Contract
	Specs      map[string]*SpecFn // by name (unqualified, must be unique) and pkg#name
	Ghosts     map[string]*GhostDecl
	Axioms     []*Axiom
	Files      []string
}

func newRegistry() *Registry {
	return &Registry{Contracts: map[string]*Contract{}, Specs: map[string]*SpecFn{}, Ghosts: map[string]*GhostDecl{}, Lemmas: map[string]*Lemma{}}
}

var stmtKeywords = map[string]bool{
	"package": true, "func": true, "requires": true, "ensures": true, "assume_ensures": true, "assert_at": true, "assume_at": true, "snapshot_at": true, "returns_after": true, "then_returns": true, "modifies": true, "unshared": true, "loop": true,
	"invariant": true, "option": true, "trusted": true, "pure": true, "spec": true, "ufunc": true,
	"axiom": true, "ghost": true, "decreases": true, "opaque": true, "macro": true, "mapvalues": true, "elemvalues": true, "guarded": true, "monitor": true, "frameset": true, "pkgalias": true, "lemmaonly": true, "dead": true, "lemma": true, "induct": true,
}

type rawStmt struct {
	kw   string
	rest string
	src  string
}

// loadContractFile parses one contract file. For .go files only lines with the
// "//@" prefix are considered and the package path is given by the caller.
func (r *Registry) loadContractFile(path string, pkgPath string) error {
	f, err := os.Open(path)
	if err != nil {
		return err
	}
	defer f.Close()
	r.Files = append(r.Files, path)
	isGo := strings.HasSuffix(path, ".go")
	var stmts []*rawStmt
	sc := bufio.NewScanner(f)
	sc.Buffer(make([]byte, 1<<20), 1<<20)
	ln := 0
	for sc.Scan() {
		ln++
		line := sc.Text()
		t := strings.TrimSpace(line)
		if strings.HasPrefix(t, "//@") {
			t = strings.TrimSpace(t[3:])
		} else if isGo {
			continue
		}
		if t == "" || strings.HasPrefix(t, "#") || strings.HasPrefix(t, "//#") {
			continue
		}
		if i := strings.Index(t, " //#"); i >= 0 { // trailing comment
			t = strings.TrimSpace(t[:i])
		}
		kw := t
		rest := ""
		if i := strings.IndexAny(t, " \t"); i >= 0 {
			kw, rest = t[:i], strings.TrimSpace(t[i+1:])
		}
		if stmtKeywords[strings.TrimSuffix(kw, ":")] && !(kw == "func" && strings.HasPrefix(rest, "(") && len(stmts) > 0 && false) {
			stmts = append(stmts, &rawStmt{kw: strings.TrimSuffix(kw, ":"), rest: rest, src: fmt.Sprintf("%s:%d", filepath.Base(path), ln)})
		} else {
			if len(stmts) == 0 {
				return fmt.Errorf("%s:%d: continuation without statement", path, ln)
			}
			stmts[len(stmts)-1].rest += " " + t
		}
	}
	var cur *Contract
	curLoop := -1
	var lastSpec *SpecFn
	var curLemma *Lemma
	for _, s := range stmts {
		fail := func(f string, a ...any) error {
			return fmt.Errorf("%s: %s", s.src, fmt.Sprintf(f, a...))
		}
		switch s.kw {
		case "package":
			pkgPath = s.rest
		case "func":
			name := s.rest
			key := name
			if !strings.Contains(name, "#") {
				key = pkgPath + "#" + name
			}
			if r.Contracts[key] != nil {
				return fail("duplicate contract for %s", key)
			}
			pk := key[:strings.Index(key, "#")]
			curLemma = nil
			cur = &Contract{Key: key, Pkg: pk, Loops: map[int][]*Clause{}, LoopMods: map[int][]string{}, Options: map[string]string{}, Src: s.src}
			r.Contracts[key] = cur
			curLoop = -1
			lastSpec = nil
		case "lemma":
			sf, err := parseSpecDecl(s.rest+" bool", true)
			if err != nil {
				return fail("%v", err)
			}
			if r.Lemmas[sf.Name] != nil {
				return fail("duplicate lemma %s", sf.Name)
			}
			curLemma = &Lemma{Name: sf.Name, Pkg: pkgPath, Params: sf.Params, Src: s.src}
			r.Lemmas[sf.Name] = curLemma
			r.LemmaOrder = append(r.LemmaOrder, sf.Name)
			cur = nil
			lastSpec = nil
		case "induct":
			if curLemma == nil {
				return fail("induct outside lemma")
			}
			text, when, _ := strings.Cut(s.rest, " when ")
			ce, err := parseCExpr(strings.TrimSpace(text))
			if err != nil || ce.Op != "call" || ce.Name != curLemma.Name {
				return fail("induct needs '%s(args) [when cond]'", curLemma.Name)
			}
			li := &LemmaInduct{Args: ce.Args, Text: s.rest}
			if strings.TrimSpace(when) != "" {
				w, err := parseCExpr(when)
				if err != nil {
					return fail("%v", err)
				}
				li.When = w
			}
			curLemma.Inducts = append(curLemma.Inducts, li)
		case "requires", "ensures", "invariant", "assume_ensures":
			if curLemma != nil && cur == nil && (s.kw == "requires" || s.kw == "ensures") {
				e, err := parseCExpr(s.rest)
				if err != nil {
					return fail("%v", err)
				}
				cl := &Clause{Text: s.rest, Expr: e, Src: s.src}
				if s.kw == "requires" {
					curLemma.Requires = append(curLemma.Requires, cl)
				} else {
					curLemma.Ensures = append(curLemma.Ensures, cl)
				}
				continue
			}
			if cur == nil {
				return fail("%s outside func", s.kw)
			}
			text := s.rest
			label := ""
			if strings.HasPrefix(text, "@") {
				i := strings.IndexAny(text, " \t")
				if i < 0 {
					return fail("label without expression")
				}
				label, text = text[1:i], strings.TrimSpace(text[i:])
			}
			e, err := parseCExpr(text)
			if err != nil {
				return fail("%v", err)
			}
			cl := &Clause{Text: text, Expr: e, Label: label, Src: s.src}
			switch s.kw {
			case "requires":
				cur.Requires = append(cur.Requires, cl)
			case "ensures":
				cur.Ensures = append(cur.Ensures, cl)
			case "assume_ensures":
				cl.Assumed = true
				cur.Ensures = append(cur.Ensures, cl)
			case "invariant":
				if curLoop < 0 {
					return fail("invariant outside loop")
				}
				cur.Loops[curLoop] = append(cur.Loops[curLoop], cl)
			}
		case "snapshot_at":
			// snapshot_at "anchor"[#n]: name = expr
			if cur == nil {
				return fail("snapshot_at outside func")
			}
			m := regexp.MustCompile(`^"((?:[^"\\]|\\.)*)"(#\d+)?\s*:\s*(\w+)\s*=\s*(.+)$`).FindStringSubmatch(s.rest)
			if m == nil {
				return fail(`snapshot_at needs '"anchor text"[#n]: name = expr'`)
			}
			e, err := parseCExpr(m[4])
			if err != nil {
				return fail("%v", err)
			}
			nth := 0
			if m[2] != "" {
				nth, _ = strconv.Atoi(m[2][1:])
			}
			cur.AssertsAt = append(cur.AssertsAt, &AssertAt{Anchor: m[1], Nth: nth, Snapshot: m[3], Clause: &Clause{Text: m[4], Expr: e, Src: s.src}})
		case "assert_at", "assume_at":
			if cur == nil {
				return fail("assert_at outside func")
			}
			m := regexp.MustCompile(`^"((?:[^"\\]|\\.)*)"(#\d+|#\*)?\s*:\s*(.+)$`).FindStringSubmatch(s.rest)
			if m == nil {
				return fail(`assert_at needs '"anchor text"[#n|#*]: expr'`)
			}
			e, err := parseCExpr(m[3])
			if err != nil {
				return fail("%v", err)
			}
			nth := 0
			if m[2] == "#*" {
				nth = -1 // every statement whose source line contains the anchor
			} else if m[2] != "" {
				nth, _ = strconv.Atoi(m[2][1:])
			}
			cur.AssertsAt = append(cur.AssertsAt, &AssertAt{Assume: s.kw == "assume_at", Anchor: m[1], Nth: nth, Clause: &Clause{Text: m[3], Expr: e, Src: s.src}})
		case "loop":
			if cur == nil {
				return fail("loop outside func")
			}
			n, err := strconv.Atoi(strings.TrimSpace(strings.TrimSuffix(strings.Fields(s.rest + " x")[0], ":")))
			if err != nil {
				return fail("loop ordinal: %v", err)
			}
			curLoop = n
			if _, ok := cur.Loops[n]; !ok {
				cur.Loops[n] = nil
			}
			// allow "loop 0: invariant expr" on one line
			rest := strings.TrimSpace(s.rest[strings.Index(s.rest, strings.Fields(s.rest)[0])+len(strings.Fields(s.rest)[0]):])
			if strings.HasPrefix(rest, "invariant") {
				text := strings.TrimSpace(rest[len("invariant"):])
				e, err := parseCExpr(text)
				if err != nil {
					return fail("%v", err)
				}
				cur.Loops[n] = append(cur.Loops[n], &Clause{Text: text, Expr: e, Src: s.src})
			}
		case "unshared":
			if cur == nil {
				return fail("unshared outside func")
			}
			for _, m := range strings.Split(s.rest, ",") {
				if m = strings.TrimSpace(m); m != "" {
					cur.Unshared = append(cur.Unshared, m)
				}
			}
		case "modifies":
			if cur == nil {
				return fail("modifies outside func")
			}
			cur.HasMod = true
			var items []string
			for _, m := range strings.Split(s.rest, ",") {
				m = strings.TrimSpace(m)
				if strings.HasPrefix(m, "@") {
					fs, ok := r.FrameSets[m[1:]]
					if !ok {
						return fail("unknown frameset %s", m)
					}
					items = append(items, fs...)
					continue
				}
				items = append(items, m)
			}
			for _, m := range items {
				if m != "" && m != "nothing" {
					if curLoop >= 0 {
						cur.LoopMods[curLoop] = append(cur.LoopMods[curLoop], m)
					} else {
						cur.Modifies = append(cur.Modifies, m)
					}
				}
			}
		case "then_returns":
			// then_returns "anchor": after a call on a matching line the function returns
			if cur == nil {
				return fail("then_returns outside func")
			}
			m := regexp.MustCompile(`^"((?:[^"\\]|\\.)*)"`).FindStringSubmatch(s.rest)
			if m == nil {
				return fail(`then_returns needs '"anchor text"'`)
			}
			cur.ThenReturns = append(cur.ThenReturns, m[1])
		case "returns_after":
			// returns_after "anchor" [unless "a", "b", ...]
			if cur == nil {
				return fail("returns_after outside func")
			}
			ms := regexp.MustCompile(`"((?:[^"\\]|\\.)*)"`).FindAllStringSubmatch(s.rest, -1)
			if len(ms) == 0 {
				return fail(`returns_after needs '"anchor" [unless "a", "b"]'`)
			}
			ra := &ReturnsAfter{After: ms[0][1], Src: s.src}
			for _, m := range ms[1:] {
				ra.Unless = append(ra.Unless, m[1])
			}
			cur.ReturnsAfter = append(cur.ReturnsAfter, ra)
		case "dead":
			// dead "anchor": the return (or loop back edge) on the source line containing the anchor is
			// expected to be unreachable under the contract's assumptions (not a sign of vacuity)
			if cur == nil {
				return fail("dead outside func")
			}
			m := regexp.MustCompile(`^"((?:[^"\\]|\\.)*)"`).FindStringSubmatch(s.rest)
			if m == nil {
				return fail(`dead needs '"anchor text"'`)
			}
			cur.Dead = append(cur.Dead, m[1])
		case "pkgalias":
			// pkgalias name = import/path   (a package name usable in type expressions of any contract)
			name, path, ok := strings.Cut(s.rest, "=")
			if !ok {
				return fail("pkgalias needs 'name = import/path'")
			}
			if r.PkgAlias == nil {
				r.PkgAlias = map[string]string{}
			}
			r.PkgAlias[strings.TrimSpace(name)] = strings.TrimSpace(path)
			cur = nil
		case "frameset":
			// frameset name: comp, comp, ...   (a named list for use as "@name" in modifies clauses)
			name, text, ok := strings.Cut(s.rest, ":")
			if !ok {
				return fail("frameset needs 'name: items'")
			}
			var items []string
			for _, m := range strings.Split(text, ",") {
				m = strings.TrimSpace(m)
				if strings.HasPrefix(m, "@") {
					items = append(items, r.FrameSets[m[1:]]...)
				} else if m != "" {
					items = append(items, m)
				}
			}
			if r.FrameSets == nil {
				r.FrameSets = map[string][]string{}
			}
			r.FrameSets[strings.TrimSpace(name)] = items
			cur = nil
		case "option":
			if cur == nil {
				return fail("option outside func")
			}
			for _, o := range strings.Fields(s.rest) {
				k, v, _ := strings.Cut(o, "=")
				cur.Options[k] = v
			}
		case "trusted":
			if cur == nil {
				return fail("trusted outside func")
			}
			cur.Trusted = true
		case "pure":
			if cur == nil {
				return fail("pure outside func")
			}
			cur.Pure = true
			cur.HasMod = true
		case "spec", "ufunc":
			sf, err := parseSpecDecl(s.rest, s.kw == "ufunc")
			if err != nil {
				return fail("%v", err)
			}
			sf.Pkg = pkgPath
			sf.Src = s.src
			if r.Specs[sf.Name] != nil {
				return fail("duplicate spec function %s", sf.Name)
			}
			r.Specs[sf.Name] = sf
			lastSpec = sf
			cur = nil
			curLemma = nil
		case "lemmaonly":
			if curLemma == nil {
				return fail("lemmaonly outside a lemma")
			}
			curLemma.LemmaOnly = true
		case "decreases":
			if curLemma != nil {
				e, err := parseCExpr(s.rest)
				if err != nil {
					return fail("%v", err)
				}
				curLemma.Decreases = e
			} else if lastSpec != nil {
				e, err := parseCExpr(s.rest)
				if err != nil {
					return fail("%v", err)
				}
				lastSpec.Decreases = e
			}
		case "opaque":
			if lastSpec != nil {
				lastSpec.Opaque = true
			}
		case "macro":
			if lastSpec != nil {
				lastSpec.Macro = true
			}
		case "axiom":
			name, text, ok := strings.Cut(s.rest, ":")
			if !ok || strings.ContainsAny(name, " (") {
				return fail("axiom needs 'name: expr'")
			}
			e, err := parseCExpr(text)
			if err != nil {
				return fail("%v", err)
			}
			r.Axioms = append(r.Axioms, &Axiom{Name: strings.TrimSpace(name), Pkg: pkgPath, Expr: e, Text: strings.TrimSpace(text), Src: s.src})
			cur = nil
		case "monitor":
			m := regexp.MustCompile(`^(\S+)\s+by\s+(\w+)\s*:\s*(.+)$`).FindStringSubmatch(s.rest)
			if m == nil {
				return fail("monitor needs 'Type by mutexField: expr over self'")
			}
			e, err := parseCExpr(m[3])
			if err != nil {
				return fail("%v", err)
			}
			r.Monitors = append(r.Monitors, &Monitor{TypeText: m[1], Pkg: pkgPath, Mutex: m[2], Expr: e, Text: m[3], Src: s.src})
			cur = nil
		case "guarded":
			// guarded T: f1, f2 by mu
			m := regexp.MustCompile(`^(\S+)\s*:\s*(.+?)\s+by\s+(\w+)$`).FindStringSubmatch(s.rest)
			if m == nil {
				return fail("guarded needs 'Type: f1, f2 by mutexField'")
			}
			g := &Guard{TypeText: m[1], Pkg: pkgPath, Mutex: m[3], Src: s.src}
			g.GrowOnly = map[string]bool{}
			for _, f := range strings.Split(m[2], ",") {
				f = strings.TrimSpace(f)
				if strings.HasSuffix(f, "+") {
					f = strings.TrimSuffix(f, "+")
					g.GrowOnly[f] = true
				}
				g.Fields = append(g.Fields, f)
			}
			r.Guards = append(r.Guards, g)
			cur = nil
		case "elemvalues":
			tt, text, ok := strings.Cut(s.rest, ":")
			if !ok {
				return fail("elemvalues needs 'slicetype: expr over v'")
			}
			e, err := parseCExpr(text)
			if err != nil {
				return fail("%v", err)
			}
			tname, only := splitOnly(tt)
			r.ElemInvs = append(r.ElemInvs, &MapInv{TypeText: tname, Pkg: pkgPath, Expr: e, Text: strings.TrimSpace(text), Src: s.src, Only: only})
			cur = nil
		case "mapvalues":
			tt, text, ok := strings.Cut(s.rest, ":")
			if !ok {
				return fail("mapvalues needs 'maptype: expr over k and v'")
			}
			e, err := parseCExpr(text)
			if err != nil {
				return fail("%v", err)
			}
			tname, only := splitOnly(tt)
			r.MapInvs = append(r.MapInvs, &MapInv{TypeText: tname, Pkg: pkgPath, Expr: e, Text: strings.TrimSpace(text), Src: s.src, Only: only})
			cur = nil
		case "ghost":
			m := regexp.MustCompile(`^(\w+)\s*:\s*(.+?)\s*->\s*(.+)$`).FindStringSubmatch(s.rest)
			if m == nil {
				return fail("ghost needs 'name: keyType -> valType'")
			}
			if r.Ghosts[m[1]] != nil {
				return fail("duplicate ghost %s", m[1])
			}
			r.Ghosts[m[1]] = &GhostDecl{Name: m[1], Pkg: pkgPath, KeyType: m[2], ValType: m[3], Src: s.src}
			cur = nil
		}
	}
	return nil
}

// parseSpecDecl parses "name(p1 T1, p2 T2) R = body" or for ufunc "name(p1 T1, ...) R".
func parseSpecDecl(text string, uf bool) (*SpecFn, error) {
	open := strings.Index(text, "(")
	if open < 0 {
		return nil, fmt.Errorf("spec: missing '('")
	}
	name := strings.TrimSpace(text[:open])
	depth := 0
	end := -1
	for i := open; i < len(text); i++ {
		if text[i] == '(' {
			depth++
		} else if text[i] == ')' {
			depth--
			if depth == 0 {
				end = i
				break
			}
		}
	}
	if end < 0 {
		return nil, fmt.Errorf("spec: unbalanced parens")
	}
	sf := &SpecFn{Name: name}
	ps := strings.TrimSpace(text[open+1 : end])
	if ps != "" {
		var pending []string
		for _, part := range splitTop(ps, ',') {
			part = strings.TrimSpace(part)
			fs := strings.SplitN(part, " ", 2)
			if len(fs) == 1 {
				pending = append(pending, fs[0])
				continue
			}
			for _, pn := range pending {
				sf.Params = append(sf.Params, CBinder{pn, strings.TrimSpace(fs[1])})
			}
			pending = nil
			sf.Params = append(sf.Params, CBinder{fs[0], strings.TrimSpace(fs[1])})
		}
		if len(pending) > 0 {
			return nil, fmt.Errorf("spec %s: parameter without type", name)
		}
	}
	rest := strings.TrimSpace(text[end+1:])
	if uf {
		sf.Ret = rest
		return sf, nil
	}
	ret, body, ok := strings.Cut(rest, "=")
	if !ok {
		return nil, fmt.Errorf("spec %s: missing '= body'", name)
	}
	// careful: "==" inside body; Cut at first '=' that is not part of '=='
	idx := -1
	for i := 0; i < len(rest); i++ {
		if rest[i] == '=' {
			if i+1 < len(rest) && rest[i+1] == '=' {
				i++
				continue
			}
			if i > 0 && (rest[i-1] == '!' || rest[i-1] == '<' || rest[i-1] == '>' || rest[i-1] == '=') {
				continue
			}
			idx = i
			break
		}
	}
	if idx < 0 {
		return nil, fmt.Errorf("spec %s: missing '= body'", name)
	}
	ret, body = strings.TrimSpace(rest[:idx]), strings.TrimSpace(rest[idx+1:])
	sf.Ret = ret
	e, err := parseCExpr(body)
	if err != nil {
		return nil, err
	}
	sf.Body = e
	return sf, nil
}

func splitTop(s string, sep byte) []string {
	var out []string
	depth := 0
	last := 0
	for i := 0; i < len(s); i++ {
		switch s[i] {
		case '(', '[':
			depth++
		case ')', ']':
			depth--
		default:
			if s[i] == sep && depth == 0 {
				out = append(out, s[last:i])
				last = i + 1
			}
		}
	}
	return append(out, s[last:])
}

// loadAll loads extern contracts from dir (*.vc) and in-repo contracts from
// every zz_*_verif.go file below repoRoot.
func (r *Registry) loadAll(externDir, repoRoot, modPath string) error {
	vcs, _ := filepath.Glob(filepath.Join(externDir, "*.vc"))
	sort.Strings(vcs)
	for _, f := range vcs {
		if err := r.loadContractFile(f, ""); err != nil {
			return err
		}
	}
	var gofiles []string
	filepath.Walk(repoRoot, func(p string, info os.FileInfo, err error) error {
		if err != nil {
			return nil
		}
		if info.IsDir() && (info.Name() == ".git" || info.Name() == "node_modules") {
			return filepath.SkipDir
		}
		if !info.IsDir() && strings.HasPrefix(info.Name(), "zz_") && strings.HasSuffix(info.Name(), "_verif.go") {
			gofiles = append(gofiles, p)
		}
		return nil
	})
	sort.Strings(gofiles)
	for _, f := range gofiles {
		rel, _ := filepath.Rel(repoRoot, filepath.Dir(f))
		pkg := modPath
		if rel != "." {
			pkg = modPath + "/" + filepath.ToSlash(rel)
		}
		if err := r.loadContractFile(f, pkg); err != nil {
			return err
		}
	}
	return nil
}
