package main

import (
	"fmt"
	"go/token"
	"go/types"
	"strings"

	"golang.org/x/tools/go/ssa"
)

const maxInlineDepth = 4
const maxInlineBlocks = 60

// encodeCall handles every kind of call. res is the SSA value to bind (nil for defer/go).
func (e *Enc) encodeCall(fr *frame, st *bstate, res ssa.Value, call *ssa.CallCommon, instr ssa.Instruction) {
	pos := instr.Pos()
	bind := func(v Val) {
		if res != nil {
			e.setVal(res, v)
		}
	}
	var resType types.Type
	if res != nil {
		resType = res.Type()
	} else {
		resType = call.Signature().Results()
	}
	// builtins
	if b, ok := call.Value.(*ssa.Builtin); ok {
		bind(e.encodeBuiltin(st, b, call, resType, pos))
		return
	}
	var args []Val
	var ssaArgs []ssa.Value
	if call.IsInvoke() {
		args = append(args, e.val(call.Value))
		ssaArgs = append(ssaArgs, call.Value)
	}
	for _, a := range call.Args {
		args = append(args, e.val(a))
		ssaArgs = append(ssaArgs, a)
	}
	if call.IsInvoke() {
		// interface method call: contract on the interface method, if any
		recvT := call.Value.Type()
		key := ifaceMethodKey(recvT, call.Method)
		e.oblige(st, "nil", e.anchor(pos, "invoke "+call.Method.Name()), sNot(sEq(e.asTerm(args[0]), "nil!iface")), pos)
		if c := e.P.reg.Contracts[key]; c != nil {
			e.curCallArgs = ssaArgs
			bind(e.applyContract(fr, st, c, nil, call.Method, args, resType, pos))
			return
		}
		e.unknownCall(st, key, pos)
		bind(e.freshVal(st, resType, "inv."+call.Method.Name()))
		return
	}
	callee := call.StaticCallee()
	if callee == nil {
		// dynamic call through a function value / closure
		e.oblige(st, "nil", e.anchor(pos, "call func value"), sNot(sEq(e.asTerm(e.val(call.Value)), "0")), pos)
		// a function stored in a struct field may have a contract attached to that field
		// ("func Type.field"): an assumption about every function ever stored there
		if ld, ok := call.Value.(*ssa.UnOp); ok && ld.Op == token.MUL {
			if fa, ok := ld.X.(*ssa.FieldAddr); ok {
				if pt, ok := fa.X.Type().Underlying().(*types.Pointer); ok {
					if named, ok := types.Unalias(pt.Elem()).(*types.Named); ok && named.Obj().Pkg() != nil {
						stt := named.Underlying().(*types.Struct)
						key := named.Obj().Pkg().Path() + "#" + named.Obj().Name() + "." + stt.Field(fa.Field).Name()
						if c := e.P.reg.Contracts[key]; c != nil {
							e.curCallArgs = ssaArgs
							e.externs[key+" (contract assumed of every function stored in this field)"] = true
							bind(e.applyFieldFuncContract(fr, st, c, call.Signature(), args, resType, pos))
							return
						}
					}
				}
			}
		}
		// a function taken out of a map that is stored in a struct field: contract "func Type.field"
		if fa := mapFieldOfFuncValue(call.Value); fa != nil {
			if pt, ok := fa.X.Type().Underlying().(*types.Pointer); ok {
				if named, ok := types.Unalias(pt.Elem()).(*types.Named); ok && named.Obj().Pkg() != nil {
					stt := named.Underlying().(*types.Struct)
					key := named.Obj().Pkg().Path() + "#" + named.Obj().Name() + "." + stt.Field(fa.Field).Name()
					if c := e.P.reg.Contracts[key]; c != nil {
						e.curCallArgs = ssaArgs
						e.externs[key+" (contract assumed of every function stored in this map)"] = true
						bind(e.applyFieldFuncContract(fr, st, c, call.Signature(), args, resType, pos))
						return
					}
				}
			}
		}
		// a value of a named function type may have a contract attached to the type ("func pkg#Type"):
		// an assumption about every function value of that type
		if named, ok := types.Unalias(call.Value.Type()).(*types.Named); ok && named.Obj().Pkg() != nil {
			key := named.Obj().Pkg().Path() + "#" + named.Obj().Name()
			if c := e.P.reg.Contracts[key]; c != nil {
				e.curCallArgs = ssaArgs
				e.externs[key+" (contract assumed of every function value of this type)"] = true
				bind(e.applyFieldFuncContract(fr, st, c, call.Signature(), args, resType, pos))
				return
			}
		}
		e.unknownCall(st, "func-value:"+call.Value.Type().String(), pos)
		bind(e.freshVal(st, resType, "dyn"))
		return
	}
	// closure created in place: free variables become extra leading arguments
	var bindings []Val
	if mc, ok := call.Value.(*ssa.MakeClosure); ok {
		for _, b := range mc.Bindings {
			bindings = append(bindings, e.val(b))
		}
	}
	if funcKey(callee) == "errors#As" && len(call.Args) == 2 {
		bind(e.encodeErrorsAs(st, call, pos))
		return
	}
	if c := e.P.contractFor(callee); c != nil && !c.hasOpt("inline") {
		if funcKey(callee) == "sync#(*Mutex).Unlock" && len(call.Args) == 1 {
			e.monitorInv(fr, st, call.Args[0], true, pos)
		}
		e.curCallArgs = ssaArgs
		e.curBindings = bindings
		rv := e.applyContract(fr, st, c, callee, nil, args, resType, pos)
		if funcKey(callee) == "sync#(*Mutex).Lock" && len(call.Args) == 1 {
			e.afterLock(st, call.Args[0])
			e.monitorInv(fr, st, call.Args[0], false, pos)
		}
		bind(rv)
		return
	}
	if e.canInline(callee) {
		bind(e.inlineCall(fr, st, callee, args, bindings, resType, pos))
		return
	}
	e.unknownCall(st, funcKey(callee), pos)
	bind(e.freshVal(st, resType, "call."+callee.Name()))
}

func (c *Contract) hasOpt(k string) bool {
	_, ok := c.Options[k]
	return ok
}

func ifaceMethodKey(recv types.Type, m *types.Func) string {
	t := types.Unalias(recv)
	if n, ok := t.(*types.Named); ok && n.Obj().Pkg() != nil {
		return n.Obj().Pkg().Path() + "#" + n.Obj().Name() + "." + m.Name()
	}
	if n, ok := t.(*types.Named); ok { // universe: error
		return "#" + n.Obj().Name() + "." + m.Name()
	}
	if m.Pkg() != nil {
		return m.Pkg().Path() + "#?." + m.Name()
	}
	return "#?." + m.Name()
}

func (e *Enc) unknownCall(st *bstate, key string, pos token.Pos) {
	e.unmod[key] = true
	if e.C != nil && e.C.HasMod && e.depth >= 0 {
		// a call about which nothing is known may write anything: it cannot respect a declared frame
		e.oblige(st, "frame", "unmodelled call "+key, "false", pos)
	}
	e.havocAll(st, key)
}

func (e *Enc) canInline(f *ssa.Function) bool {
	if f == e.fn || e.inlineStack[f] {
		return false
	}
	if len(f.Blocks) == 0 || len(f.Blocks) > maxInlineBlocks || e.depth >= maxInlineDepth {
		return false
	}
	pkg := funcPkg(f)
	if pkg == nil {
		return false
	}
	if !strings.HasPrefix(pkg.Path(), modPath) {
		// generated protobuf getters of dependency packages (nil-safe field reads) are inlined too
		if !(f.Signature.Recv() != nil && strings.HasPrefix(f.Name(), "Get") && len(f.Blocks) <= 4 && isGeneratedPB(f)) {
			return false
		}
	}
	if f.Recover != nil {
		return false
	}
	for _, b := range f.Blocks {
		for _, s := range b.Succs {
			if isBackEdge(b, s) {
				return false
			}
		}
		for _, in := range b.Instrs {
			switch in.(type) {
			case *ssa.Go, *ssa.Select, *ssa.Defer:
				return false
			}
		}
	}
	return true
}

// isGeneratedPB: f is declared in a protoc-gen-go generated file (*.pb.go).
func isGeneratedPB(f *ssa.Function) bool {
	if f.Prog == nil || !f.Pos().IsValid() {
		return false
	}
	return strings.HasSuffix(f.Prog.Fset.Position(f.Pos()).Filename, ".pb.go")
}

func (e *Enc) inlineCall(fr *frame, st *bstate, callee *ssa.Function, args, bindings []Val, resType types.Type, pos token.Pos) Val {
	e.inlines[funcKey(callee)] = true
	e.depth++
	e.inlineStack[callee] = true
	defer func() { e.depth--; delete(e.inlineStack, callee) }()
	sub := &frame{fn: callee, inlined: true}
	// bind params; save previous bindings for recursion safety
	saved := map[ssa.Value]Val{}
	var touched []ssa.Value
	for _, b := range callee.Blocks {
		for _, in := range b.Instrs {
			if v, ok := in.(ssa.Value); ok {
				if old, ok := e.vals[v]; ok {
					saved[v] = old
				}
				touched = append(touched, v)
			}
		}
	}
	for i, p := range callee.Params {
		if i < len(args) {
			a := args[i]
			a.Typ = p.Type()
			e.vals[p] = a
		}
	}
	for i, fv := range callee.FreeVars {
		if i < len(bindings) {
			e.vals[fv] = bindings[i]
		} else {
			e.vals[fv] = e.freshVal(st, fv.Type(), "freevar")
		}
	}
	e.encodeFrame(sub, st)
	for _, v := range touched {
		if old, ok := saved[v]; ok {
			e.vals[v] = old
		}
	}
	// merge return sites
	if len(sub.rets) == 0 {
		// callee never returns normally
		nr := e.fresh("noreturn", "Bool")
		e.assert(sNot(nr))
		st.reach = nr
		return e.freshVal(st, resType, "noret")
	}
	if len(sub.rets) == 1 {
		r := sub.rets[0]
		st.reach = r.reach
		st.heap = r.heap
		return packResults(r.results, resType)
	}
	var cs []string
	for _, r := range sub.rets {
		cs = append(cs, r.reach)
	}
	nr := e.fresh("reach.ret."+callee.Name(), "Bool")
	e.assert(sEq(nr, sOr(cs...)))
	// heap merge
	merged := map[string]string{}
	for _, n := range e.W.compOrder {
		c := e.W.comps[n]
		first := ""
		same := true
		present := false
		for _, r := range sub.rets {
			v, ok := r.heap[n]
			if !ok {
				continue
			}
			present = true
			if first == "" {
				first = v
			} else if v != first {
				same = false
			}
		}
		if !present {
			continue
		}
		if same {
			merged[n] = first
			continue
		}
		tmp := &bstate{heap: merged}
		nv := e.newHeapVersion(tmp, c)
		for _, r := range sub.rets {
			rs := &bstate{heap: r.heap}
			e.assume(r.reach, sEq(nv, e.heapVar(rs, c)))
		}
	}
	st.heap = merged
	st.reach = nr
	// results merge
	var out []Val
	nres := len(sub.rets[0].results)
	for i := 0; i < nres; i++ {
		t0 := sub.rets[0].results[i]
		if t0.Loc != nil {
			e.note("inlined function returns an address")
			out = append(out, t0)
			continue
		}
		allSame := true
		for _, r := range sub.rets[1:] {
			if r.results[i].T != t0.T {
				allSame = false
			}
		}
		if allSame {
			out = append(out, t0)
			continue
		}
		rv := e.fresh("ret."+callee.Name(), e.W.sortOf(t0.Typ))
		for _, r := range sub.rets {
			e.assume(r.reach, sEq(rv, e.asTerm(r.results[i])))
		}
		out = append(out, Val{T: rv, Typ: t0.Typ})
	}
	return packResults(out, resType)
}

func packResults(rs []Val, resType types.Type) Val {
	if tup, ok := resType.(*types.Tuple); ok {
		if tup.Len() == 1 && len(rs) == 1 {
			r := rs[0]
			return r
		}
		return Val{Tup: rs, Typ: resType}
	}
	if len(rs) == 1 {
		return rs[0]
	}
	return Val{Tup: rs, Typ: resType}
}

// applyContract: assert pre, havoc frame, assume post.
// Exactly one of callee / method is non-nil.
func (e *Enc) applyContract(fr *frame, st *bstate, c *Contract, callee *ssa.Function, method *types.Func, args []Val, resType types.Type, pos token.Pos) Val {
	bindings := e.curBindings
	spawn := e.spawning
	e.curBindings, e.spawning = nil, false
	defer func() { e.curCallArgs = nil }()
	if c.Trusted {
		e.externs[c.Key] = true
	}
	var sig *types.Signature
	var pnames []string
	if callee != nil {
		sig = callee.Signature
		for _, p := range callee.Params {
			pnames = append(pnames, p.Name())
		}
	} else {
		sig = method.Type().(*types.Signature)
		pnames = append(pnames, "self")
		for i := 0; i < sig.Params().Len(); i++ {
			pnames = append(pnames, sig.Params().At(i).Name())
		}
	}
	params := map[string]Val{}
	for i, n := range pnames {
		if i < len(args) && n != "" && n != "_" {
			params[n] = args[i]
		}
		if i < len(args) {
			params[fmt.Sprintf("arg%d", i)] = args[i]
		}
	}
	// a closure's contract may name its free variables: they denote the captured variables' values
	if callee != nil {
		for i, fv := range callee.FreeVars {
			if i >= len(bindings) || fv.Name() == "" {
				continue
			}
			b := bindings[i]
			if pt, ok := fv.Type().(*types.Pointer); ok && b.Loc == nil && e.W.structInfo(pt.Elem()) == nil {
				b = Val{Loc: &Loc{Comp: e.W.cellComp(pt.Elem()), Idx: []string{b.T}, Typ: pt.Elem()}, Typ: pt.Elem()}
			}
			if _, dup := params[fv.Name()]; !dup {
				params[fv.Name()] = b
			}
		}
	}
	pre := &bstate{reach: st.reach, heap: copyHeap(st.heap)}
	arb := map[string]string{}
	mkEnv := func(cur *bstate) *SpecEnv {
		env := e.newSpecEnv(fr, cur)
		env.callParams = params
		env.callSite = true
		env.arb = arb
		env.oldHeap = pre.heap
		env.pkg = e.P.tpkgs[c.Pkg]
		env.callSig = sig
		return env
	}
	for i, cl := range c.Requires {
		env := mkEnv(st)
		t, err := env.formula(cl.Expr)
		if err != nil {
			e.errors = append(e.errors, fmt.Sprintf("%s: requires of %s: %v", cl.Src, c.Key, err))
			continue
		}
		label := cl.Label
		if label == "" {
			label = fmt.Sprint(i)
		}
		o := e.oblige(st, "pre", fmt.Sprintf("%s.%s@%s", shortKey(c.Key), label, e.anchor(pos, "call")), t, pos)
		if o != nil {
			o.Detail = cl.Text
		}
	}
	// frame
	if !c.HasMod {
		e.havocAll(st, c.Key)
	} else {
		for _, m := range c.Modifies {
			target := ""
			if strings.HasPrefix(m, "onlyfresh(") && strings.HasSuffix(m, ")") {
				// the callee may write the object denoted by the argument and objects it allocates
				// itself; every other pre-existing object keeps its state in every component
				e.modifiesOnlyFresh(st, pre, c, strings.TrimSuffix(strings.TrimPrefix(m, "onlyfresh("), ")"), mkEnv, pnames, pos)
				continue
			}
			if i := strings.Index(m, "@"); i >= 0 {
				// "comp @ expr": only the object denoted by expr is modified
				ex, err := parseCExpr(strings.TrimSpace(m[i+1:]))
				if err != nil {
					e.errors = append(e.errors, fmt.Sprintf("%s: modifies %q: %v", c.Src, m, err))
					continue
				}
				env := mkEnv(pre)
				tv, err := env.tr(ex)
				if err != nil {
					e.errors = append(e.errors, fmt.Sprintf("%s: modifies %q: %v", c.Src, m, err))
					continue
				}
				target = tv.T
				if tv.Sort == "Slice" {
					target = app("sbase", tv.T)
				}
				m = strings.TrimSpace(m[:i])
			}
			for _, cn := range e.resolveCompSpecPkg(m, c.Pkg) {
				comp := e.W.comps[cn]
				if e.C != nil && e.C.HasMod && !e.inFrame(comp) {
					if target != "" {
						e.W.needRoot()
						g := app(">", app("root", target), e.entryAlloc)
						if comp.Kind == "elems" {
							g = sOr(sEq(target, "0"), g) // a nil slice has no elements
						}
						e.oblige(st, "frame", comp.Name+"@call "+shortKey(c.Key), g, pos)
					} else {
						// callee may modify pre-existing objects of a component outside our own frame
						e.oblige(st, "frame", comp.Name+"@call "+shortKey(c.Key), "false", pos)
					}
				}
				old := e.heapVar(st, comp)
				nv := e.newHeapVersion(st, comp)
				if target != "" {
					k := e.fresh("modat", arrayRange(comp.Sort))
					e.assert(sEq(nv, app("store", old, target, k)))
				}
			}
		}
		if !c.Pure {
			// callee may allocate
			ac := e.allocComp()
			old := e.heapVar(st, ac)
			nv := e.newHeapVersion(st, ac)
			e.assert(app(">=", nv, old))
		}
	}
	// results
	var rv Val
	var results []Val
	if tup, ok := resType.(*types.Tuple); ok {
		for i := 0; i < tup.Len(); i++ {
			results = append(results, e.freshVal(st, tup.At(i).Type(), "res."+shortKey(c.Key)))
		}
		if tup.Len() == 1 {
			rv = results[0]
		} else {
			rv = Val{Tup: results, Typ: resType}
		}
	} else {
		rv = e.freshVal(st, resType, "res."+shortKey(c.Key))
		results = []Val{rv}
	}
	for _, r := range results {
		e.assumeAllocated(st, r)
	}
	for _, cl := range c.Ensures {
		if spawn {
			break // a spawned goroutine need not have finished: only its frame is known
		}
		if cl.Assumed {
			e.externs[c.Key+" (assumed postcondition: "+cl.Text+")"] = true
		}
		env := mkEnv(st)
		env.results = results
		t, err := env.formula(cl.Expr)
		if err != nil {
			e.errors = append(e.errors, fmt.Sprintf("%s: ensures of %s: %v", cl.Src, c.Key, err))
			continue
		}
		e.assume(st.reach, t)
	}
	return rv
}

func (e *Enc) resolveCompSpecPkg(m, pkg string) []string { return e.resolveCompSpec(m, pkg) }

func shortKey(k string) string {
	if i := strings.Index(k, "#"); i >= 0 {
		return trimPkg(k[:i]) + "." + k[i+1:]
	}
	return k
}

func (e *Enc) encodeBuiltin(st *bstate, b *ssa.Builtin, call *ssa.CallCommon, resType types.Type, pos token.Pos) Val {
	arg := func(i int) Val { return e.val(call.Args[i]) }
	switch b.Name() {
	case "len":
		a := arg(0)
		switch t := call.Args[0].Type().Underlying().(type) {
		case *types.Slice:
			return Val{T: app("slength", a.T), Typ: resType}
		case *types.Basic:
			return Val{T: app("slen", a.T), Typ: resType}
		case *types.Map:
			_, _, l := e.W.mapComps(t)
			r := e.fresh("maplen", "Int")
			e.assert(sEq(r, sIte(sEq(a.T, "0"), "0", app("select", e.heapVar(st, l), a.T))))
			e.assert(app(">=", r, "0"))
			return Val{T: r, Typ: resType}
		case *types.Array:
			return Val{T: fmt.Sprint(t.Len()), Typ: resType}
		case *types.Pointer:
			if at, ok := t.Elem().Underlying().(*types.Array); ok {
				return Val{T: fmt.Sprint(at.Len()), Typ: resType}
			}
		case *types.Chan:
			e.note("len(chan)")
			v := e.freshVal(st, resType, "chanlen")
			e.assert(app(">=", v.T, "0"))
			return v
		}
	case "cap":
		a := arg(0)
		switch t := call.Args[0].Type().Underlying().(type) {
		case *types.Slice:
			return Val{T: app("scap", a.T), Typ: resType}
		case *types.Array:
			return Val{T: fmt.Sprint(t.Len()), Typ: resType}
		}
	case "append":
		return e.encodeAppend(st, call, resType, pos)
	case "copy":
		return e.encodeCopy(st, call, resType, pos)
	case "delete":
		if fa := growOnlyField(e, call.Args[0]); fa != "" {
			e.oblige(st, "grow-only", e.anchor(pos, "delete from grow-only map "+fa), "false", pos)
		}
		m := arg(0).T
		k := e.asTerm(arg(1))
		mt := call.Args[0].Type().Underlying().(*types.Map)
		d, _, l := e.W.mapComps(mt)
		od, ol := e.heapVar(st, d), e.heapVar(st, l)
		was := sAnd(sNot(sEq(m, "0")), app("select", app("select", od, m), k))
		e.frameCheck(st, d, []string{m}, pos)
		nd := e.newHeapVersion(st, d)
		e.assume(st.reach, sEq(nd, sIte(sEq(m, "0"), od, app("store", od, m, app("store", app("select", od, m), k, "false")))))
		nl := e.newHeapVersion(st, l)
		e.assume(st.reach, sEq(nl, sIte(was, app("store", ol, m, app("-", app("select", ol, m), "1")), ol)))
		return Val{}
	case "min", "max":
		op := "<="
		if b.Name() == "max" {
			op = ">="
		}
		cur := arg(0).T
		for i := 1; i < len(call.Args); i++ {
			n := arg(i).T
			cur = sIte(app(op, cur, n), cur, n)
		}
		return Val{T: cur, Typ: resType}
	case "print", "println":
		return Val{}
	case "close":
		// close panics on a nil or already closed channel; chanClosed is the built-in ghost
		// (declared in contracts/extern/builtin.vc) recording which channels are closed
		a := arg(0)
		g := e.P.reg.Ghosts["chanClosed"]
		if g == nil {
			e.note("close(chan) (not modelled)")
			return Val{}
		}
		c := e.ghostComp(g)
		e.oblige(st, "close", e.anchor(pos, "close of nil channel"), sNot(sEq(a.T, "0")), pos)
		e.oblige(st, "close", e.anchor(pos, "close of closed channel"), sNot(app("select", e.heapVar(st, c), a.T)), pos)
		e.frameCheck(st, c, []string{a.T}, pos)
		old := e.heapVar(st, c)
		nv := e.newHeapVersion(st, c)
		e.assume(st.reach, sEq(nv, app("store", old, a.T, "true")))
		return Val{}
	case "ssa:wrapnilchk":
		return arg(0)
	case "clear":
		e.note("clear() (havoc)")
		e.havocAll(st, "clear")
		return Val{}
	case "recover":
		return e.freshVal(st, resType, "recover")
	case "panic":
		e.oblige(st, "panic", e.anchor(pos, "panic"), "false", pos)
		return Val{}
	}
	e.note("unsupported builtin " + b.Name())
	e.havocAll(st, b.Name())
	return e.freshVal(st, resType, b.Name())
}

// encodeAppend models append(s, xs...) precisely: in place if capacity allows,
// otherwise a fresh backing array with the old contents copied.
func (e *Enc) encodeAppend(st *bstate, call *ssa.CallCommon, resType types.Type, pos token.Pos) Val {
	s := e.val(call.Args[0]).T
	st0 := call.Args[0].Type().Underlying().(*types.Slice)
	el := st0.Elem()
	c := e.W.elemComp(el)
	elSort := e.W.sortOf(el)
	var srcLen, srcAt string // srcAt: function from k to element term, written with placeholder %K
	switch t := call.Args[1].Type().Underlying().(type) {
	case *types.Slice:
		x := e.val(call.Args[1]).T
		srcLen = app("slength", x)
		srcAt = app("select", app("select", e.heapVar(st, c), app("sbase", x)), app("idx", app("soff", x), "%K"))
		_ = t
	case *types.Basic: // append([]byte, string...)
		x := e.val(call.Args[1]).T
		srcLen = app("slen", x)
		srcAt = app("sat", x, "%K")
	default:
		e.note("unsupported append form")
		e.havocAll(st, "append")
		return e.freshVal(st, resType, "append")
	}
	old := e.heapVar(st, c)
	n := e.fresh("app.n", "Int")
	e.assert(sEq(n, srcLen))
	newLen := app("+", app("slength", s), n)
	fits := app("<=", newLen, app("scap", s))
	// fresh backing
	ac := e.allocComp()
	oldAlloc := e.heapVar(st, ac)
	fr := e.fresh("ref.append", "Int")
	e.assert(app(">", fr, oldAlloc))
	e.assert(app(">", fr, "0"))
	nAlloc := e.newHeapVersion(st, ac)
	e.assert(sEq(nAlloc, fr))
	res := e.fresh("app.res", "Slice")
	ncap := e.fresh("app.cap", "Int")
	e.assert(app(">=", ncap, newLen))
	e.assert(sEq(res, sIte(fits,
		app("mk-slice", app("sbase", s), app("soff", s), newLen, app("scap", s)),
		app("mk-slice", fr, "0", newLen, ncap))))
	// new contents of the target backing array
	tb := app("sbase", res)
	to := app("soff", res)
	arr := e.fresh("app.arr", "(Array Int "+elSort+")")
	oldTarget := app("select", old, app("sbase", s))
	// single element appended through a freshly built varargs slice is by far the most common case
	srcK := func(k string) string { return strings.ReplaceAll(srcAt, "%K", k) }
	inApp := fmt.Sprintf("(and (<= (+ %s (slength %s)) j) (< j (+ %s %s)))", to, s, to, newLen)
	e.assert(fmt.Sprintf("(forall ((j Int)) (! (and (=> %s (= (select %s j) %s)) (=> (and (not %s) %s) (= (select %s j) (select %s j))) (=> (and (not %s) (<= 0 j) (< j (slength %s))) (= (select %s j) (select %s (idx (soff %s) j))))) :pattern ((select %s j))))",
		inApp, arr, srcK(fmt.Sprintf("(- j (+ %s (slength %s)))", to, s)),
		inApp, fits, arr, oldTarget,
		fits, s, arr, oldTarget, s, arr))
	if e.C != nil && e.C.HasMod && !e.inFrame(c) {
		e.W.needRoot()
		e.oblige(st, "frame", c.Name+"@append", sOr(sNot(fits), sEq(n, "0"), app(">", app("root", app("sbase", s)), e.entryAlloc)), pos)
	}
	nv := e.newHeapVersion(st, c)
	e.assume(st.reach, sEq(nv, sIte(sEq(n, "0"), old, app("store", old, tb, arr))))
	// n == 0 and not nil: result is s itself (Go returns s unchanged when nothing is appended and cap suffices)
	return Val{T: res, Typ: resType}
}

func (e *Enc) encodeCopy(st *bstate, call *ssa.CallCommon, resType types.Type, pos token.Pos) Val {
	dst := e.val(call.Args[0]).T
	dt := call.Args[0].Type().Underlying().(*types.Slice)
	c := e.W.elemComp(dt.Elem())
	elSort := e.W.sortOf(dt.Elem())
	old := e.heapVar(st, c)
	var srcLen, srcAt string
	switch call.Args[1].Type().Underlying().(type) {
	case *types.Slice:
		x := e.val(call.Args[1]).T
		srcLen = app("slength", x)
		srcAt = app("select", app("select", old, app("sbase", x)), app("idx", app("soff", x), "%K"))
	default:
		x := e.val(call.Args[1]).T
		srcLen = app("slen", x)
		srcAt = app("sat", x, "%K")
	}
	n := e.fresh("copy.n", "Int")
	e.assert(sEq(n, sIte(app("<=", app("slength", dst), srcLen), app("slength", dst), srcLen)))
	arr := e.fresh("copy.arr", "(Array Int "+elSort+")")
	oldT := app("select", old, app("sbase", dst))
	e.assert(fmt.Sprintf("(forall ((j Int)) (! (= (select %s j) (ite (and (<= (soff %s) j) (< j (+ (soff %s) %s))) %s (select %s j))) :pattern ((select %s j))))",
		arr, dst, dst, n, strings.ReplaceAll(srcAt, "%K", fmt.Sprintf("(- j (soff %s))", dst)), oldT, arr))
	e.frameCheck(st, c, []string{app("sbase", dst)}, pos)
	nv := e.newHeapVersion(st, c)
	e.assume(st.reach, sEq(nv, sIte(sEq(n, "0"), old, app("store", old, app("sbase", dst), arr))))
	return Val{T: n, Typ: resType}
}

// errAsPred names the predicate "errors.As(err, *T) succeeds" for target element type T.
func (e *Enc) errAsPred(t types.Type) string {
	n := "errAs!" + shortTypeName(t)
	e.W.declare(n, fmt.Sprintf("(declare-fun %s (Iface) Bool)\n(assert (not (%s nil!iface)))", n, n))
	return n
}

// errAsVal names the value errors.As stores into a target of type T when it succeeds.
func (e *Enc) errAsVal(t types.Type) string {
	n := "errAsVal!" + shortTypeName(t)
	e.W.declare(n, fmt.Sprintf("(declare-fun %s (Iface) %s)", n, e.W.sortOf(t)))
	return n
}

// encodeErrorsAs models errors.As(err, &target): the result is a fixed (uninterpreted)
// predicate of err, false for nil; the target variable is overwritten arbitrarily.
func (e *Enc) encodeErrorsAs(st *bstate, call *ssa.CallCommon, pos token.Pos) Val {
	errT := e.term(st, call.Args[0])
	mi, ok := call.Args[1].(*ssa.MakeInterface)
	if !ok {
		e.unknownCall(st, "errors#As (target not statically known)", pos)
		return e.freshVal(st, types.Typ[types.Bool], "erras")
	}
	pt, ok := mi.X.Type().Underlying().(*types.Pointer)
	if !ok {
		e.unknownCall(st, "errors#As (target not a pointer)", pos)
		return e.freshVal(st, types.Typ[types.Bool], "erras")
	}
	e.externs["errors#As (result = fixed predicate of the error, false for nil; on success target = fixed function of the error, else overwritten)"] = true
	tv := e.val(mi.X)
	pred := app(e.errAsPred(pt.Elem()), errT)
	nv := e.freshVal(st, pt.Elem(), "erras.target").T
	e.assume(st.reach, sImp(pred, sEq(nv, app(e.errAsVal(pt.Elem()), errT))))
	if e.W.sortOf(pt.Elem()) == "Iface" {
		// a target of interface type receives the matching error of the chain, which is not nil
		e.assume(st.reach, sImp(pred, sNot(sEq(nv, "nil!iface"))))
	}
	if tv.Loc != nil {
		e.storeLoc(st, tv.Loc, nv)
	} else if e.W.structInfo(pt.Elem()) != nil {
		e.storeStruct(st, tv.T, pt.Elem(), nv)
	} else {
		e.storeLoc(st, &Loc{Comp: e.W.cellComp(pt.Elem()), Idx: []string{tv.T}, Typ: pt.Elem()}, nv)
	}
	return Val{T: pred, Typ: types.Typ[types.Bool]}
}

// guardsFor returns the guard declarations of struct type t.
func (e *Enc) guardsFor(t types.Type) []*Guard {
	var out []*Guard
	for _, g := range e.P.reg.Guards {
		if e.P.tpkgs[g.Pkg] == nil {
			continue // package not part of this program
		}
		gt, err := e.evalType(g.TypeText, e.P.tpkgs[g.Pkg])
		if err != nil {
			e.errors = append(e.errors, fmt.Sprintf("%s: guarded: %v", g.Src, err))
			continue
		}
		if types.Identical(gt, types.Unalias(t)) {
			out = append(out, g)
		}
	}
	return out
}

func fieldIndex(st *types.Struct, name string) int {
	for i := 0; i < st.NumFields(); i++ {
		if st.Field(i).Name() == name {
			return i
		}
	}
	return -1
}

// afterLock: acquiring a mutex makes everything it guards unknown (other
// goroutines may have changed it while the lock was free): the guarded fields of
// the owner and, one level down, the contents of the maps and slices they hold.
func (e *Enc) afterLock(st *bstate, mu ssa.Value) {
	defer func() {
		if e.depth == 0 {
			if e.lockHeap == nil {
				e.lockHeap = copyHeap(st.heap) // state right after the first Lock of the function body (atlock(...))
			}
			e.lockHeaps = append(e.lockHeaps, copyHeap(st.heap)) // atlock(e, n): after the n-th Lock in program order
			e.lockInstrs = append(e.lockInstrs, e.curInstr)
		}
	}()
	fa, ok := mu.(*ssa.FieldAddr)
	if !ok {
		return
	}
	ot := fa.X.Type().Underlying().(*types.Pointer).Elem()
	si := e.W.structInfo(ot)
	owner := e.val(fa.X)
	if si == nil || owner.Loc != nil {
		return
	}
	muName := si.St.Field(fa.Field).Name()
	for _, g := range e.guardsFor(ot) {
		if g.Mutex != muName {
			continue
		}
		for _, fn := range g.Fields {
			fi := fieldIndex(si.St, fn)
			if fi < 0 {
				e.errors = append(e.errors, fmt.Sprintf("%s: guarded field %s not found", g.Src, fn))
				continue
			}
			ft := si.St.Field(fi).Type()
			if e.W.structInfo(ft) != nil {
				continue // nested struct by value: its fields are separate components (not havocked here)
			}
			c := e.W.fieldComp(si.Type, fi)
			old := e.heapVar(st, c)
			nvv := e.freshVal(st, ft, "lock."+fn)
			e.assumeAllocated(st, nvv)
			nv := e.newHeapVersion(st, c)
			e.assert(sEq(nv, app("store", old, owner.T, nvv.T)))
			// objects this function allocated and has not published before this Lock cannot be
			// what other goroutines stored in the shared state
			private := e.unpublishedAt(e.curInstr)
			for _, r := range private {
				switch ft.Underlying().(type) {
				case *types.Pointer, *types.Map, *types.Chan:
					e.assert(sNot(sEq(nvv.T, r)))
				}
			}
			grow := g.GrowOnly[fn]
			if grow {
				// rely: once set the field keeps its map
				e.assert(sImp(sNot(sEq(app("select", old, owner.T), "0")), sEq(nvv.T, app("select", old, owner.T))))
			}
			switch u := ft.Underlying().(type) {
			case *types.Map:
				d, v, l := e.W.mapComps(u)
				if grow {
					// rely: other goroutines only add keys
					od := e.heapVar(st, d)
					defer func(d *Comp, od string, nvv Val, ks string) {
						nd := app("select", e.heapVar(st, d), nvv.T)
						e.assert(sImp(sNot(sEq(nvv.T, "0")), fmt.Sprintf("(forall ((q %s)) (! (=> (select (select %s %s) q) (select %s q)) :pattern ((select %s q))))", ks, od, nvv.T, nd, nd)))
					}(d, od, nvv, e.W.sortOf(u.Key()))
				}
				defer func(v *Comp, u *types.Map, nvv Val) {
					if pt, isPtr := types.Unalias(u.Elem()).Underlying().(*types.Pointer); isPtr {
						cur := app("select", e.heapVar(st, v), nvv.T)
						ks := e.W.sortOf(u.Key())
						for _, r := range private {
							e.assert(fmt.Sprintf("(forall ((q %s)) (! (not (= (select %s q) %s)) :pattern ((select %s q))))", ks, cur, r, cur))
						}
						// the objects found in the map refer (one level down) to existing, non-private objects too
						if si := e.W.structInfo(pt.Elem()); si != nil {
							alloc := e.heapVar(st, e.allocComp())
							for i := 0; i < si.St.NumFields(); i++ {
								ft := si.St.Field(i).Type()
								var val func(string) string
								switch types.Unalias(ft).Underlying().(type) {
								case *types.Pointer:
									e.W.needRoot()
									val = func(x string) string { return "(root " + x + ")" }
								case *types.Map, *types.Chan:
									val = func(x string) string { return x }
								default:
									continue
								}
								fc := e.heapVar(st, e.W.fieldComp(si.Type, i))
								fv := fmt.Sprintf("(select %s (select %s q))", fc, cur)
								conj := []string{app("<=", val(fv), alloc)}
								for _, r := range private {
									conj = append(conj, sNot(sEq(fv, r)))
								}
								e.assert(fmt.Sprintf("(forall ((q %s)) (! %s :pattern ((select %s q))))", ks, sAnd(conj...), cur))
							}
						}
					}
				}(v, u, nvv)
				for _, mc := range []*Comp{d, v, l} {
					o := e.heapVar(st, mc)
					n := e.newHeapVersion(st, mc)
					k := e.fresh("lock.map", arrayRange(mc.Sort))
					e.assert(sEq(n, sIte(sEq(nvv.T, "0"), o, app("store", o, nvv.T, k))))
					if mc == l {
						e.assert(app(">=", k, "0"))
					}
					if mc == v {
						// the values found in the map are objects that exist now
						alloc := e.heapVar(st, e.allocComp())
						ks := e.W.sortOf(u.Key())
						switch types.Unalias(u.Elem()).Underlying().(type) {
						case *types.Pointer:
							e.W.needRoot()
							e.assert(fmt.Sprintf("(forall ((q %s)) (! (<= (root (select %s q)) %s) :pattern ((select %s q))))", ks, k, alloc, k))
						case *types.Map, *types.Chan:
							e.assert(fmt.Sprintf("(forall ((q %s)) (! (<= (select %s q) %s) :pattern ((select %s q))))", ks, k, alloc, k))
						case *types.Slice:
							e.assert(fmt.Sprintf("(forall ((q %s)) (! (<= (sbase (select %s q)) %s) :pattern ((select %s q))))", ks, k, alloc, k))
						}
					}
				}
			case *types.Slice:
				ec := e.W.elemComp(u.Elem())
				o := e.heapVar(st, ec)
				n := e.newHeapVersion(st, ec)
				k := e.fresh("lock.elems", arrayRange(ec.Sort))
				e.assert(sEq(n, sIte(sEq(app("sbase", nvv.T), "0"), o, app("store", o, app("sbase", nvv.T), k))))
			}
		}
	}
}

// guardCheck: an access to a guarded field needs the guarding mutex (unless the
// object was allocated by this very function and is not shared yet).
func (e *Enc) guardCheck(st *bstate, fa *ssa.FieldAddr, base string) {
	ot := fa.X.Type().Underlying().(*types.Pointer).Elem()
	si := e.W.structInfo(ot)
	if si == nil {
		return
	}
	fname := si.St.Field(fa.Field).Name()
	for _, g := range e.guardsFor(ot) {
		for _, f := range g.Fields {
			if f != fname {
				continue
			}
			mi := fieldIndex(si.St, g.Mutex)
			if mi < 0 {
				continue
			}
			gh := e.P.reg.Ghosts["held"]
			if gh == nil {
				e.errors = append(e.errors, "guarded fields need the ghost 'held' (sync contracts)")
				return
			}
			hc := e.ghostComp(gh)
			e.W.needRoot()
			goal := sOr(app("select", e.heapVar(st, hc), e.subRef(ot, mi, base)), app(">", app("root", base), e.entryAlloc))
			e.oblige(st, "lock", e.anchor(fa.Pos(), "guarded field "+fname), goal, fa.Pos())
		}
	}
}

// monitorInv asserts (check=true, before Unlock) or assumes (after Lock) the monitor
// invariants attached to the mutex field addressed by mu.
func (e *Enc) monitorInv(fr *frame, st *bstate, mu ssa.Value, check bool, pos token.Pos) {
	fa, ok := mu.(*ssa.FieldAddr)
	if !ok {
		return
	}
	ot := fa.X.Type().Underlying().(*types.Pointer).Elem()
	si := e.W.structInfo(ot)
	owner := e.val(fa.X)
	if si == nil || owner.Loc != nil {
		return
	}
	muName := si.St.Field(fa.Field).Name()
	for i, m := range e.P.reg.Monitors {
		if e.P.tpkgs[m.Pkg] == nil {
			continue
		}
		mt, err := e.evalType(m.TypeText, e.P.tpkgs[m.Pkg])
		if err != nil || !types.Identical(mt, types.Unalias(ot)) || m.Mutex != muName {
			continue
		}
		env := e.newSpecEnv(fr, st)
		env.pkg = e.P.tpkgs[m.Pkg]
		env.entryOnly = true
		env.binders["self"] = SVal{T: owner.T, Typ: fa.X.Type(), Sort: "Int"}
		f, err := env.formula(m.Expr)
		if err != nil {
			e.errors = append(e.errors, fmt.Sprintf("%s: monitor: %v", m.Src, err))
			continue
		}
		if check {
			o := e.oblige(st, "monitor", fmt.Sprintf("%s.%d@%s", shortTypeName(ot), i, e.anchor(pos, "unlock")), f, pos)
			if o != nil {
				o.Detail = m.Text
			}
		} else {
			e.assume(st.reach, f)
		}
	}
}

// modifiesOnlyFresh implements "modifies onlyfresh(arg)".
func (e *Enc) modifiesOnlyFresh(st, pre *bstate, c *Contract, argName string, mkEnv func(*bstate) *SpecEnv, pnames []string, pos token.Pos) {
	// find the target reference: a pointer argument, or a pointer boxed into an interface at the call site
	target := ""
	idx := -1
	for i, n := range pnames {
		if n == argName {
			idx = i
		}
	}
	if idx >= 0 && idx < len(e.curCallArgs) {
		a := e.curCallArgs[idx]
		if mi, ok := a.(*ssa.MakeInterface); ok {
			if _, isPtr := mi.X.Type().Underlying().(*types.Pointer); isPtr {
				if v := e.val(mi.X); v.Loc == nil {
					target = v.T
				}
			}
		} else if _, isPtr := a.Type().Underlying().(*types.Pointer); isPtr {
			if v := e.val(a); v.Loc == nil {
				target = v.T
			}
		}
	}
	if target == "" {
		e.note("modifies onlyfresh: target of " + shortKey(c.Key) + " not statically known (havoc)")
		e.havocAll(st, c.Key)
		return
	}
	e.W.needRoot()
	if e.C != nil && e.C.HasMod {
		e.oblige(st, "frame", "onlyfresh@call "+shortKey(c.Key), app(">", app("root", target), e.entryAlloc), pos)
	}
	allocPre := e.heapVar(pre, e.allocComp())
	for _, n := range append([]string(nil), e.W.compOrder...) {
		comp := e.W.comps[n]
		if comp.Kind == "alloc" || comp.Kind == "global-ext" || comp.Kind == "iter" || !strings.HasPrefix(comp.Sort, "(Array Int ") {
			continue
		}
		old := e.heapVar(st, comp)
		nv := e.newHeapVersion(st, comp)
		e.assert(fmt.Sprintf("(forall ((r Int)) (! (=> (and (<= (root r) %s) (not (= (root r) (root %s)))) (= (select %s r) (select %s r))) :pattern ((select %s r))))", allocPre, target, nv, old, nv))
	}
}

// applyFieldFuncContract applies a contract attached to a function-typed struct field.
func (e *Enc) applyFieldFuncContract(fr *frame, st *bstate, c *Contract, sig *types.Signature, args []Val, resType types.Type, pos token.Pos) Val {
	// reuse applyContract through a synthetic method-like view: parameter names arg0..argN
	m := types.NewFunc(token.NoPos, nil, "fieldfunc", sig)
	// applyContract expects args[0] to be the receiver for methods: prepend a dummy
	dummy := Val{T: "0", Typ: types.Typ[types.Int]}
	return e.applyContract(fr, st, c, nil, m, append([]Val{dummy}, args...), resType, pos)
}


// unpublishedAt: references of objects allocated by the verified function (new(T), &local,
// make) that no instruction which can execute before `at` stores anywhere, passes to a call,
// captures in a closure, converts to an interface, sends or returns. Conservative: any such
// use that is not dominated by `at` counts as a possible earlier publication.
func (e *Enc) unpublishedAt(at ssa.Instruction) []string {
	if at == nil || at.Parent() != e.fn {
		return nil
	}
	after := func(u ssa.Instruction) bool { // u can only execute after at
		if u.Block() == at.Block() {
			return instrIndex(u) > instrIndex(at)
		}
		return at.Block().Dominates(u.Block())
	}
	var private func(v ssa.Value, seen map[ssa.Value]bool) bool
	private = func(v ssa.Value, seen map[ssa.Value]bool) bool {
		if seen[v] {
			return true
		}
		seen[v] = true
		refs := v.Referrers()
		if refs == nil {
			return false
		}
		for _, u := range *refs {
			switch x := u.(type) {
			case *ssa.DebugRef:
			case *ssa.FieldAddr, *ssa.IndexAddr:
				if !private(x.(ssa.Value), seen) {
					return false
				}
			case *ssa.Store:
				if x.Val == v && !after(x) {
					// storing the reference into an object that is itself still private keeps it private
					if owner := ownerAlloc(x.Addr); owner == nil || !private(owner, seen) {
						return false
					}
				}
			case *ssa.UnOp: // load through the pointer
				if x.Op != token.MUL {
					return false
				}
			case *ssa.Field, *ssa.Index:
			default:
				if !after(u) {
					return false
				}
			}
		}
		return true
	}
	var out []string
	for _, b := range e.fn.Blocks {
		for _, in := range b.Instrs {
			var v ssa.Value
			switch x := in.(type) {
			case *ssa.Alloc:
				v = x
			case *ssa.MakeMap:
				v = x
			case *ssa.MakeChan:
				v = x
			}
			if v == nil {
				continue
			}
			val, ok := e.vals[v]
			if !ok || val.T == "" || val.Loc != nil {
				continue
			}
			// allocated before at on every path to it
			if !(in.Block() == at.Block() && instrIndex(in) < instrIndex(at) || in.Block() != at.Block() && in.Block().Dominates(at.Block())) {
				continue
			}
			if private(v, map[ssa.Value]bool{}) {
				out = append(out, val.T)
			}
		}
	}
	return out
}


// mapFieldOfFuncValue: v is a function value read (by lookup or by range) from a map that
// was loaded from a struct field; returns that field's address instruction.
func mapFieldOfFuncValue(v ssa.Value) *ssa.FieldAddr {
	var m ssa.Value
	switch x := v.(type) {
	case *ssa.Lookup:
		m = x.X
	case *ssa.Extract:
		switch t := x.Tuple.(type) {
		case *ssa.Lookup:
			if x.Index == 0 {
				m = t.X
			}
		case *ssa.Next:
			if rng, ok := t.Iter.(*ssa.Range); ok && x.Index == 2 {
				m = rng.X
			}
		}
	}
	if m == nil {
		return nil
	}
	if ld, ok := m.(*ssa.UnOp); ok && ld.Op == token.MUL {
		if fa, ok := ld.X.(*ssa.FieldAddr); ok {
			return fa
		}
	}
	return nil
}


// growOnlyField: v is a map loaded from a struct field declared grow-only ("guarded T: f+ by mu").
func growOnlyField(e *Enc, v ssa.Value) string {
	ld, ok := v.(*ssa.UnOp)
	if !ok || ld.Op != token.MUL {
		return ""
	}
	fa, ok := ld.X.(*ssa.FieldAddr)
	if !ok {
		return ""
	}
	return e.growOnlyFieldAddr(fa)
}

func (e *Enc) growOnlyFieldAddr(fa *ssa.FieldAddr) string {
	pt, ok := fa.X.Type().Underlying().(*types.Pointer)
	if !ok {
		return ""
	}
	si := e.W.structInfo(pt.Elem())
	if si == nil {
		return ""
	}
	fn := si.St.Field(fa.Field).Name()
	for _, g := range e.guardsFor(pt.Elem()) {
		if g.GrowOnly[fn] {
			return fn
		}
	}
	return ""
}


// ownerAlloc: the local allocation (new(T), &local) whose field or element addr denotes, if any.
func ownerAlloc(addr ssa.Value) ssa.Value {
	for {
		switch x := addr.(type) {
		case *ssa.FieldAddr:
			addr = x.X
		case *ssa.IndexAddr:
			addr = x.X
		case *ssa.Alloc:
			return x
		default:
			return nil
		}
	}
}
