package main

import (
	"fmt"
	"go/types"
	"os"
	"path/filepath"
	"sort"
	"strings"
	"sync"
	"time"

	"golang.org/x/tools/go/ssa"
)

type FnResult struct {
	Key       string
	Display   string
	Obls      []*Obl
	Notes     []string
	Unmod     []string
	Externs   []string
	Inlines   []string
	Errors    []string
	Header    string
	Items     []string
	Vacuity   string // sat, unsat, unknown
	Canaries  []*Obl // program points at which "false" must not be derivable
	VacuousAt []string
	Loops     int
	Contract  *Contract
	Axioms    []string
	Lemmas    []string
	RetReach  string
	// ParamTerms: SMT constants of the parameters, in order (replay)
	ParamTerms []string
}

func newEnc(P *Program, fn *ssa.Function, c *Contract, W *World) *Enc {
	return &Enc{P: P, W: W, fn: fn, C: c, vals: map[ssa.Value]Val{}, notes: map[string]bool{}, unmod: map[string]bool{},
		externs: map[string]bool{}, inlines: map[string]bool{}, oblCount: map[string]int{}, writes: map[*ssa.BasicBlock]map[string]bool{},
		specSigs: map[string]*specSig{}, inlineStack: map[*ssa.Function]bool{}, ranges: map[*ssa.Range]*rangeModel{}, lemmasUsed: map[string]bool{}, protected: map[*loopInfo][]*ssa.Range{}, assertDone: map[*AssertAt]bool{}}
}

func (e *Enc) assumeAllocated(st *bstate, v Val) {
	if v.Loc != nil || v.T == "" {
		for _, x := range v.Tup {
			e.assumeAllocated(st, x)
		}
		return
	}
	if v.Typ == nil {
		return
	}
	alloc := e.heapVar(st, e.allocComp())
	switch types.Unalias(v.Typ).Underlying().(type) {
	case *types.Pointer:
		e.W.needRoot()
		e.assert(app("<=", app("root", v.T), alloc))
	case *types.Map, *types.Chan:
		e.assert(app("<=", v.T, alloc))
	case *types.Slice:
		e.assert(app("<=", app("sbase", v.T), alloc))
	case *types.Interface:
		e.W.declare("iref", "(declare-fun iref (Iface) Int)")
		e.assert(app("<=", app("iref", v.T), alloc))
	}
}

// encodeTop encodes the function against its contract.
func (e *Enc) encodeTop() {
	fn := e.fn
	st := &bstate{reach: "true", heap: map[string]string{}}
	for _, n := range e.W.compOrder {
		st.heap[n] = n + "@0"
	}
	e.allocComp()
	st.heap["alloc"] = "alloc@0"
	e.entryAlloc = "alloc@0"
	e.assert("(>= alloc@0 0)")
	fr := &frame{fn: fn, heap0: copyHeap(st.heap)}
	e.top = fr
	for _, p := range fn.Params {
		n := e.fresh("p."+p.Name(), e.W.sortOf(p.Type()))
		v := Val{T: n, Typ: p.Type()}
		e.vals[p] = v
		e.assumeType(v)
		e.assumeAllocated(st, v)
	}
	for _, p := range fn.FreeVars {
		n := e.fresh("fv."+p.Name(), e.W.sortOf(p.Type()))
		v := Val{T: n, Typ: p.Type()}
		e.vals[p] = v
		e.assumeType(v)
		e.assumeAllocated(st, v)
		if _, ok := p.Type().(*types.Pointer); ok {
			e.assert(app(">", n, "0"))
		}
	}
	if e.C != nil {
		for _, cl := range e.C.Requires {
			env := e.newSpecEnv(fr, st)
			env.entryOnly = true
			t, err := env.formula(cl.Expr)
			if err != nil {
				e.errors = append(e.errors, fmt.Sprintf("%s: requires: %v", cl.Src, err))
				continue
			}
			e.assert(t)
		}
	}
	e.encodeFrame(fr, st)
}

// lemmaFormula renders "forall params. requires ==> ensures" of a lemma.
func (e *Enc) lemmaFormula(lm *Lemma) (string, error) {
	plain, _, err := e.lemmaFormula2(lm)
	return plain, err
}

// lemmaFormula2 renders the lemma twice: without trigger (the solver chooses) and with an
// explicit trigger (used by the fuel-indexed script variant, where solver-chosen triggers
// such as s[k] are re-fed by every unfolding).
func (e *Enc) lemmaFormula2(lm *Lemma) (string, string, error) {
	env := e.newSpecEnv(nil, nil)
	env.pkg = e.P.tpkgs[lm.Pkg]
	var bs []string
	for _, p := range lm.Params {
		t, err := e.evalType(p.Type, env.pkg)
		if err != nil {
			return "", "", err
		}
		srt := e.specSort(t)
		vn := "l!" + sanitize(p.Name)
		env.binders[p.Name] = SVal{T: vn, Typ: t, Sort: srt}
		bs = append(bs, fmt.Sprintf("(%s %s)", vn, srt))
	}
	var pre, post []string
	for _, cl := range lm.Requires {
		f, err := env.formula(cl.Expr)
		if err != nil {
			return "", "", err
		}
		pre = append(pre, f)
	}
	for _, cl := range lm.Ensures {
		f, err := env.formula(cl.Expr)
		if err != nil {
			return "", "", err
		}
		post = append(post, f)
	}
	body := sImp(sAnd(pre...), sAnd(post...))
	// explicit trigger: the applications of recursive spec functions to plain parameters that
	// occur in the lemma (ensures first), when together they mention every parameter. Leaving
	// the choice to the solver lets it pick terms such as s[k], which the unfolding of the
	// definitions keeps producing (matching loops).
	isParam := map[string]bool{}
	for _, p := range lm.Params {
		isParam[p.Name] = true
	}
	var pats []string
	covered := map[string]bool{}
	seen := map[string]bool{}
	var walk func(x *CExpr, bound map[string]bool)
	walk = func(x *CExpr, bound map[string]bool) {
		if x == nil {
			return
		}
		if x.Op == "forall" || x.Op == "exists" {
			nb := map[string]bool{}
			for k := range bound {
				nb[k] = true
			}
			for _, bd := range x.Binders {
				nb[bd.Name] = true
			}
			for _, a := range x.Args {
				walk(a, nb)
			}
			return
		}
		if sf := e.P.reg.Specs[x.Name]; x.Op == "call" && sf != nil && sf.Body != nil && isRecursiveSpec(sf) {
			simple := true
			for _, a := range x.Args {
				if a.Op != "id" || !isParam[a.Name] || bound[a.Name] {
					simple = false
				}
			}
			if simple {
				if t, err := env.tr(x); err == nil && !seen[t.T] {
					seen[t.T] = true
					pats = append(pats, t.T)
					for _, a := range x.Args {
						covered[a.Name] = true
					}
				}
			}
		}
		for _, a := range x.Args {
			walk(a, bound)
		}
	}
	for _, cl := range lm.Ensures {
		walk(cl.Expr, map[string]bool{})
	}
	if len(covered) < len(lm.Params) {
		for _, cl := range lm.Requires {
			walk(cl.Expr, map[string]bool{})
		}
	}
	if len(bs) == 0 {
		return body, body, nil // a ground lemma
	}
	plain := fmt.Sprintf("(forall (%s) %s)", strings.Join(bs, " "), body)
	if len(pats) > 0 && len(covered) == len(lm.Params) {
		return plain, fmt.Sprintf("(forall (%s) (! %s :pattern (%s)))", strings.Join(bs, " "), body, strings.Join(pats, " ")), nil
	}
	return plain, plain, nil
}

func lemmaCalls(lm *Lemma) []string {
	var out []string
	for _, cl := range append(append([]*Clause{}, lm.Requires...), lm.Ensures...) {
		out = append(out, calledNames(cl.Expr)...)
	}
	return out
}

func (e *Enc) axiomsText() (string, []string) {
	var used []string
	var b strings.Builder
	done := map[string]bool{}
	for changed := true; changed; {
		changed = false
		for _, ln := range e.P.reg.LemmaOrder {
			lm := e.P.reg.Lemmas[ln]
			if os.Getenv("VERIF_DEBUG") == "7" {
				fmt.Fprintf(os.Stderr, "DEBUG lemma %s cur=%s sigs=%d\n", ln, e.curLemma, len(e.specSigs))
			}
			if ln == e.curLemma {
				break // while proving a lemma only earlier lemmas are available (no circular proofs)
			}
			if done["lemma:"+ln] || (lm.LemmaOnly && e.curLemma == "") || e.opt("nolemma:"+ln) {
				continue // "option nolemma:<name>": the function's proof does not want this lemma
			}
			// a lemma is offered when a spec function it talks about is in use here (a lemma may
			// bring in further spec functions, e.g. a witness function); lemmas that only slow a
			// proof down are kept out with "lemmaonly" or "option nolemma:<name>"
			rel := false
			for _, n := range lemmaCalls(lm) {
				if _, ok := e.specSigs[n]; ok {
					rel = true
				}
			}
			if os.Getenv("VERIF_DEBUG") == "7" {
				fmt.Fprintf(os.Stderr, "DEBUG   rel=%v pkg=%q loaded=%v calls=%v\n", rel, lm.Pkg, e.P.tpkgs[lm.Pkg] != nil, lemmaCalls(lm))
			}
			if !rel || e.P.tpkgs[lm.Pkg] == nil && lm.Pkg != "" && !(e.curLemma != "" && e.P.reg.Lemmas[e.curLemma].Pkg == lm.Pkg) {
				continue
			}
			done["lemma:"+ln] = true
			changed = true
			f, fpat, err := e.lemmaFormula2(lm)
			if err != nil {
				e.errors = append(e.errors, fmt.Sprintf("%s: lemma %s: %v", lm.Src, ln, err))
				continue
			}
			fmt.Fprintf(&b, "(assert %s) ; lemma %s\n", f, ln)
			if fpat != f {
				fmt.Fprintf(&b, ";;recax-lemma (assert %s) ; lemma %s\n", fpat, ln)
			}
			e.lemmasUsed[ln] = true
		}
		for _, ax := range e.P.reg.Axioms {
			if done[ax.Name] {
				continue
			}
			rel := false
			for _, n := range calledNames(ax.Expr) {
				if _, ok := e.specSigs[n]; ok {
					rel = true
				}
			}
			if !rel {
				continue
			}
			done[ax.Name] = true
			changed = true
			env := e.newSpecEnv(nil, nil)
			env.pkg = e.P.tpkgs[ax.Pkg]
			t, err := env.formula(ax.Expr)
			if err != nil {
				e.errors = append(e.errors, fmt.Sprintf("%s: axiom %s: %v", ax.Src, ax.Name, err))
				continue
			}
			fmt.Fprintf(&b, "(assert %s) ; axiom %s\n", t, ax.Name)
			used = append(used, ax.Name)
		}
	}
	return b.String(), used
}

func calledNames(x *CExpr) []string {
	if x == nil {
		return nil
	}
	var out []string
	if x.Op == "call" {
		out = append(out, x.Name)
	}
	for _, a := range x.Args {
		out = append(out, calledNames(a)...)
	}
	return out
}

func (e *Enc) header() (string, []string) {
	if e.opt("strassoc") {
		e.W.strAssoc = true
	}
	ax, used := e.axiomsText()
	specs := e.specDefs()
	// axioms may have pulled in more spec functions
	ax, used = e.axiomsText()
	specs = e.specDefs()
	// component declarations first (they may request helper declarations such as root)
	var cb strings.Builder
	e.allocComp() // the entry-closedness axioms mention alloc@0
	for _, n := range e.W.compOrder {
		c := e.W.comps[n]
		fmt.Fprintf(&cb, "(declare-const %s@0 %s)\n", c.Name, c.Sort)
	}
	for _, n := range e.W.compOrder {
		c := e.W.comps[n]
		for _, ax := range heapTypeAxioms(e.W, c, c.Name+"@0") {
			cb.WriteString(ax + "\n")
		}
		for _, ax := range entryClosedAxioms(e.W, c) {
			cb.WriteString(ax + "\n")
		}
	}
	var b strings.Builder
	b.WriteString("(set-option :produce-models true)\n")
	b.WriteString(e.W.prelude())
	b.WriteString(cb.String())
	b.WriteString(specs)
	b.WriteString("\n")
	b.WriteString(ax)
	return b.String(), used
}

// verifyFunction generates and discharges all obligations of one function.
func verifyFunction(P *Program, key string, opts *runOpts) *FnResult {
	res := &FnResult{Key: key}
	fn := P.lookupFunc(key)
	if fn == nil {
		res.Errors = append(res.Errors, "function not found: "+key)
		return res
	}
	if len(fn.Blocks) == 0 {
		res.Errors = append(res.Errors, "function has no body: "+key)
		return res
	}
	res.Display = fnDisplay(fn)
	c := P.contractFor(fn)
	res.Contract = c
	W := newWorld()
	dry := newEnc(P, fn, c, W)
	dry.dry = true
	dry.encodeTop()
	e := newEnc(P, fn, c, W)
	e.writes = dry.writes
	e.encodeTop()
	res.Header, res.Axioms = e.header()
	res.Items = e.items
	if fn != nil {
		for _, p := range fn.Params {
			if v, ok := e.vals[p]; ok && v.Loc == nil {
				res.ParamTerms = append(res.ParamTerms, v.T)
			}
		}
	}
	res.Obls = e.obls
	res.Loops = len(e.top.loops)
	for n := range e.notes {
		res.Notes = append(res.Notes, n)
	}
	for n := range e.unmod {
		res.Unmod = append(res.Unmod, n)
	}
	for n := range e.externs {
		res.Externs = append(res.Externs, n)
	}
	for n := range e.inlines {
		res.Inlines = append(res.Inlines, n)
	}
	for n := range e.lemmasUsed {
		res.Lemmas = append(res.Lemmas, n)
	}
	sort.Strings(res.Lemmas)
	sort.Strings(res.Notes)
	sort.Strings(res.Unmod)
	sort.Strings(res.Externs)
	sort.Strings(res.Inlines)
	res.Errors = append(res.Errors, e.errors...)
	if c != nil {
		for _, a := range c.AssertsAt {
			if !e.assertDone[a] && a.Nth >= 0 { // "#*" (every matching statement) may match none
				res.Errors = append(res.Errors, fmt.Sprintf("%s: assert_at anchor %q matches no statement", a.Clause.Src, a.Anchor))
			}
		}
		for ord := range c.Loops {
			if ord >= res.Loops {
				res.Errors = append(res.Errors, fmt.Sprintf("%s: contract mentions loop %d but function has %d loops", c.Src, ord, res.Loops))
			}
		}
	}
	// vacuity: some return site must be reachable under all assumptions
	var reaches []string
	// collect reach of all post obligations' sites: approximate by all obligations' reach
	for _, r := range e.top.rets {
		reaches = append(reaches, r.reach)
	}
	res.RetReach = sOr(reaches...)
	res.Vacuity = "skipped"
	res.Canaries = e.canaries
	if opts != nil && !opts.noSolve {
		dischargeAll(res, opts)
	}
	return res
}

type runOpts struct {
	timeout int
	seed    int
	workdir string
	noSolve bool
	keep    bool
	noRetry bool
	jobs    int
	verbose bool
}

func oblScript(res *FnResult, o *Obl) string {
	var b strings.Builder
	b.WriteString(res.Header)
	for _, it := range res.Items[:o.At] {
		b.WriteString(it)
		b.WriteString("\n")
	}
	fmt.Fprintf(&b, "(assert %s)\n(assert (not %s))\n(check-sat)\n(get-model)\n", o.Reach, o.Goal)
	return b.String()
}

func dischargeAll(res *FnResult, opts *runOpts) {
	dir := filepath.Join(opts.workdir, shortName(res.Display, 80))
	os.MkdirAll(dir, 0o755)
	jobs := opts.jobs
	if jobs <= 0 {
		jobs = 12
	}
	sem := make(chan struct{}, jobs)
	var wg sync.WaitGroup
	for _, o := range res.Obls {
		wg.Add(1)
		go func(o *Obl) {
			defer wg.Done()
			sem <- struct{}{}
			defer func() { <-sem }()
			script := oblScript(res, o)
			if len(script) > 4<<20 {
				o.Status = "error"
				o.Model = "script exceeds size cap"
				return
			}
			t0 := time.Now()
			r := discharge(script, dir, o.Name, opts.timeout, opts.seed, false)
			o.Time = r.time
			o.Wall = time.Since(t0).Seconds()
			o.Solver = r.solver
			switch r.status {
			case "unsat":
				o.Status = "proved"
			case "sat":
				o.Status = "failed"
				o.Model = r.output
			default:
				o.Status = "unknown"
				o.Model = r.status + ": " + firstLines(r.output, 3)
			}
			o.Script = filepath.Join(dir, shortName(o.Name, 90)+".smt2")
		}(o)
	}
	// canaries: with all hypotheses (quantified ones included) "false" must not follow at any
	// return or loop back edge; a quick E-matching run is enough to expose contradictory
	// assumed contracts or invariants
	var cmu sync.Mutex
	for _, o := range res.Canaries {
		wg.Add(1)
		go func(o *Obl) {
			defer wg.Done()
			sem <- struct{}{}
			defer func() { <-sem }()
			var b strings.Builder
			b.WriteString(res.Header)
			for _, it := range res.Items[:o.At] {
				b.WriteString(it)
				b.WriteString("\n")
			}
			fmt.Fprintf(&b, "(assert %s)\n(check-sat)\n", o.Reach)
			r := discharge(b.String(), dir, o.Name, 3, opts.seed, true)
			if r.status != "unsat" {
				// a contradiction among quantified hypotheses is found or missed depending on the
				// instantiation order: try a second seed (the prelude inconsistency of DESIGN 11.4
				// showed up with one seed out of many)
				r = discharge(b.String(), dir, o.Name+".s2", 3, opts.seed+1, true)
			}
			if r.status == "unsat" {
				cmu.Lock()
				res.VacuousAt = append(res.VacuousAt, o.Name)
				cmu.Unlock()
			}
		}(o)
	}
	// vacuity check in parallel
	wg.Add(1)
	go func() {
		defer wg.Done()
		sem <- struct{}{}
		defer func() { <-sem }()
		var b strings.Builder
		b.WriteString(res.Header)
		for _, it := range res.Items {
			b.WriteString(it)
			b.WriteString("\n")
		}
		fmt.Fprintf(&b, "(assert %s)\n(check-sat)\n", res.RetReach)
		// quantified hypotheses are dropped: a weakening, so "unsat" still proves vacuity
		r := discharge(dropQuantified(b.String()), dir, "vacuity", min(opts.timeout, 5), opts.seed, true)
		res.Vacuity = r.status
	}()
	wg.Wait()
	// Second chance for timeouts: the first pass runs many solver processes side by side, and
	// a query that needs a good part of its budget can lose it to scheduling. Obligations that
	// timed out are tried once more, one at a time, with twice the budget and another seed. A
	// genuinely failing obligation just costs this extra time.
	retried := 0
	for _, o := range res.Obls {
		if o.Status != "unknown" || !strings.HasPrefix(o.Model, "timeout") || retried >= 6 || opts.noRetry {
			continue
		}
		retried++
		r := discharge(oblScript(res, o), dir, o.Name, 2*opts.timeout, opts.seed+1, false)
		if r.status == "unsat" {
			o.Status = "proved"
			o.Solver = r.solver + "(retry)"
			o.Time += r.time
			o.Model = ""
		}
	}
	if len(res.VacuousAt) > 0 {
		sort.Strings(res.VacuousAt)
		res.Vacuity = "unsat"
	}
}

func firstLines(s string, n int) string {
	ls := strings.Split(strings.TrimSpace(s), "\n")
	if len(ls) > n {
		ls = ls[:n]
	}
	return strings.Join(ls, " | ")
}

// dropQuantified removes every single-line assertion that contains a quantifier.
func dropQuantified(script string) string {
	var b strings.Builder
	for _, ln := range strings.Split(script, "\n") {
		if strings.HasPrefix(ln, "(assert ") && (strings.Contains(ln, "(forall ") || strings.Contains(ln, "(exists ")) {
			continue
		}
		b.WriteString(ln)
		b.WriteString("\n")
	}
	return b.String()
}

// verifyLemma proves a lemma by induction: assuming the requires and the declared
// induction hypotheses (the lemma itself at arguments with a smaller measure), the
// ensures must follow.
func verifyLemma(P *Program, name string, opts *runOpts) *FnResult {
	res := &FnResult{Key: "lemma " + name, Display: "lemma." + name}
	lm := P.reg.Lemmas[name]
	if lm == nil {
		res.Errors = append(res.Errors, "lemma not found: "+name)
		return res
	}
	W := newWorld()
	e := newEnc(P, nil, nil, W)
	e.curLemma = name
	env := e.newSpecEnv(nil, nil)
	env.pkg = P.tpkgs[lm.Pkg]
	fail := func(err error) *FnResult {
		res.Errors = append(res.Errors, fmt.Sprintf("%s: lemma %s: %v", lm.Src, name, err))
		return res
	}
	var psorts []string
	for _, p := range lm.Params {
		t, err := e.evalType(p.Type, env.pkg)
		if err != nil {
			return fail(err)
		}
		srt := e.specSort(t)
		c := e.fresh("lp."+p.Name, srt)
		env.binders[p.Name] = SVal{T: c, Typ: t, Sort: srt}
		psorts = append(psorts, srt)
	}
	conj := func(cls []*Clause, en *SpecEnv) (string, error) {
		var fs []string
		for _, cl := range cls {
			f, err := en.formula(cl.Expr)
			if err != nil {
				return "", err
			}
			fs = append(fs, f)
		}
		return sAnd(fs...), nil
	}
	pre, err := conj(lm.Requires, env)
	if err != nil {
		return fail(err)
	}
	e.assert(pre)
	st := &bstate{reach: "true", heap: map[string]string{}}
	var measure string
	if lm.Decreases != nil {
		m, err := env.tr(lm.Decreases)
		if err != nil {
			return fail(err)
		}
		measure = m.T
	}
	for i, ind := range lm.Inducts {
		if len(ind.Args) != len(lm.Params) {
			return fail(fmt.Errorf("induct: wrong number of arguments"))
		}
		sub := env.clone()
		for k, a := range ind.Args {
			v, err := env.tr(a)
			if err != nil {
				return fail(err)
			}
			if v.Sort == "nil" {
				v = env.nilOf(SVal{Sort: psorts[k]})
			}
			if isView(psorts[k]) && v.Sort == "Slice" {
				if v, err = env.toView(v); err != nil {
					return fail(err)
				}
			}
			sub.binders[lm.Params[k].Name] = v
		}
		when := "true"
		if ind.When != nil {
			if when, err = env.formula(ind.When); err != nil {
				return fail(err)
			}
		}
		ipre, err := conj(lm.Requires, sub)
		if err != nil {
			return fail(err)
		}
		ipost, err := conj(lm.Ensures, sub)
		if err != nil {
			return fail(err)
		}
		if measure == "" {
			return fail(fmt.Errorf("induct needs a decreases clause"))
		}
		m2, err := sub.tr(lm.Decreases)
		if err != nil {
			return fail(err)
		}
		o := e.oblige(st, "decreases", fmt.Sprintf("%s.induct%d", name, i), sImp(when, sAnd(app("<=", "0", m2.T), app("<", m2.T, measure))), 0)
		if o != nil {
			o.Detail = ind.Text
		}
		// induction hypothesis
		e.assert(sImp(sAnd(when, ipre), ipost))
	}
	for i, cl := range lm.Ensures {
		f, err := env.formula(cl.Expr)
		if err != nil {
			return fail(err)
		}
		o := e.oblige(st, "lemma", fmt.Sprintf("%s.%d", name, i), f, 0)
		if o != nil {
			o.Detail = cl.Text
		}
	}
	for _, o := range e.obls {
		o.Fn = res.Display
		o.Name = strings.Replace(o.Name, "<nil>", "lemma", 1)
	}
	res.Header, res.Axioms = e.header()
	res.Items = e.items
	res.Obls = e.obls
	res.Errors = append(res.Errors, e.errors...)
	for n := range e.lemmasUsed {
		res.Lemmas = append(res.Lemmas, n)
	}
	res.RetReach = "true"
	res.Vacuity = "skipped"
	res.Contract = &Contract{Key: res.Key}
	if opts != nil && !opts.noSolve {
		dischargeAll(res, opts)
	}
	return res
}

// entryClosedAxioms: at function entry every reference stored anywhere in the heap denotes
// an object that already exists (is not above the allocation counter).
func entryClosedAxioms(w *World, c *Comp) []string {
	if c.ValTyp == nil {
		return nil
	}
	n := c.Name + "@0"
	var f func(v string) string
	switch types.Unalias(c.ValTyp).Underlying().(type) {
	case *types.Pointer:
		w.needRoot()
		f = func(v string) string { return "(<= (root " + v + ") alloc@0)" }
	case *types.Map, *types.Chan:
		f = func(v string) string { return "(<= " + v + " alloc@0)" }
	case *types.Slice:
		f = func(v string) string { return "(<= (sbase " + v + ") alloc@0)" }
	case *types.Interface:
		w.declare("iref", "(declare-fun iref (Iface) Int)")
		f = func(v string) string { return "(<= (iref " + v + ") alloc@0)" }
	default:
		return nil
	}
	switch c.Kind {
	case "mapval":
		if c.KeySort == "" {
			return nil
		}
		return []string{fmt.Sprintf("(assert (forall ((m Int) (k %s)) (! (=> (<= m alloc@0) %s) :pattern ((select (select %s m) k)))))", c.KeySort, f("(select (select "+n+" m) k)"), n)}
	case "ghost":
		// a ghost map describes existing objects only
		if c.KeySort == "" {
			return nil
		}
		return []string{fmt.Sprintf("(assert (forall ((r %s)) (! %s :pattern ((select %s r)))))", c.KeySort, f("(select "+n+" r)"), n)}
	case "field", "cell":
		// only objects that exist at entry are described: the fields of objects allocated later start
		// from these (unconstrained) values and may come to hold fresh references
		w.needRoot()
		return []string{fmt.Sprintf("(assert (forall ((r Int)) (! (=> (<= (root r) alloc@0) %s) :pattern ((select %s r)))))", f("(select "+n+" r)"), n)}
	case "elems":
		w.needRoot()
		return []string{fmt.Sprintf("(assert (forall ((r Int) (i Int)) (! (=> (<= (root r) alloc@0) %s) :pattern ((select (select %s r) i)))))", f("(select (select "+n+" r) i)"), n)}
	}
	return nil
}

// isRecursiveSpec: the spec function calls itself (directly).
func isRecursiveSpec(sf *SpecFn) bool {
	for _, n := range calledNames(sf.Body) {
		if n == sf.Name {
			return true
		}
	}
	return false
}
