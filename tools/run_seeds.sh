#!/bin/bash
# Applies every seeded change under /verif/seeded to /repo (working tree only), runs the
# check of the property it breaks, reverts, and records whether the check caught it.
cd /verif || exit 2
if ! git -C /repo diff --quiet; then echo "/repo has uncommitted changes; refusing"; exit 2; fi
for d in seeded/${1:-*}/; do
  id=$(basename "$d"); prop=$(python3 -c "import json;print(json.load(open('$d/meta.json'))['property'])")
  if ! git -C /repo apply "/verif/$d/patch.diff" 2>/dev/null; then echo "$id: patch no longer applies" | tee "$d/result.txt"; continue; fi
  out=$(./check "$prop" quick 2>&1); rc=$?
  git -C /repo checkout -- .
  if [ $rc -eq 1 ] && echo "$out" | grep -q "^VIOLATION property=$prop"; then
    echo "$id: DETECTED by ./check $prop quick: $(echo "$out" | grep '^VIOLATION' | sed -E 's/.*obligation="([^"]*)".*/\1/' | head -3 | tr '\n' ';')" | tee "$d/result.txt"
  else
    echo "$id: MISSED (exit $rc): $(echo "$out" | tail -1)" | tee "$d/result.txt"
  fi
done
