#!/bin/bash
# Same as run_seeds.sh but against a scratch clone of /repo (so /repo stays usable meanwhile):
# clone /repo's HEAD to a scratch directory, apply each seeded change there, run the property's
# check with VERIF_REPO pointing at the clone and a shadow VERIF_ROOT (own evidence/replay
# directories), revert. Used for bulk regression of all seeds after engine changes; the
# per-seed result.txt files are updated. The scratch directories are removed at the end.
set -u
glob=${1:-*}
clone=/var/tmp/verif-seedclone-$$; shadow=/var/tmp/verif-seedroot-$$
rm -rf "$clone" "$shadow"; git clone -q /repo "$clone" || exit 2
mkdir -p "$shadow/evidence" "$shadow/replay"
for x in props known_findings.json contracts bin properties.jsonl; do ln -s /verif/$x "$shadow/$x"; done
cd /verif || exit 2
for d in seeded/$glob/; do
  id=$(basename "$d"); prop=$(python3 -c "import json;print(json.load(open('$d/meta.json'))['property'])")
  if ! git -C "$clone" apply "/verif/$d/patch.diff" 2>/dev/null; then echo "$id: patch no longer applies" | tee "$d/result.txt"; continue; fi
  out=$(VERIF_REPO="$clone" VERIF_ROOT="$shadow" VERIF_SCRATCH="/var/tmp/verif-seedscratch-$$" /verif/bin/govc check "$prop" --tier quick 2>&1); rc=$?
  git -C "$clone" checkout -q -- .
  if [ $rc -eq 1 ] && echo "$out" | grep -q "^VIOLATION property=$prop"; then
    echo "$id: DETECTED by ./check $prop quick: $(echo "$out" | grep '^VIOLATION' | sed -E 's/.*obligation="([^"]*)".*/\1/' | head -3 | tr '\n' ';')" | tee "$d/result.txt"
  else
    echo "$id: MISSED (exit $rc): $(echo "$out" | tail -1)" | tee "$d/result.txt"
  fi
done
rm -rf "$clone" "$shadow" "/var/tmp/verif-seedscratch-$$"
