#!/bin/bash
# usage: confirm_seed.sh <seed-out-dir> <scratch-worktree> <dest /verif/seeded/NAME>
# Confirms: patch applies and compiles; demo fails with patch, passes without; existing suite passes with patch.
set -u
export GOFLAGS=-mod=mod GOPROXY=off GOSUMDB=off GOTOOLCHAIN=local
out=$1; wt=$2; dest=$3
cd "$wt" || exit 2
git checkout -q -- . ; git clean -qfd
file=$(python3 -c "import json;print(json.load(open('$out/meta.json'))['file'])")
pkgdir=$(dirname "$file")
demo="$pkgdir/zz_seed_demo_test.go"
res() { echo "$1" | tee -a "$out/confirm.log"; }
: > "$out/confirm.log"
cp "$out/demo_test.go" "$demo"
if go test -vet=off -count=1 -run 'Seed' "./$pkgdir/" >/dev/null 2>&1; then res "demo without patch: PASS (ok)"; else res "demo without patch: FAIL (bad)"; fi
git apply "$out/patch.diff" || { res "patch does not apply"; exit 1; }
if go test -vet=off -count=1 -run 'Seed' "./$pkgdir/" >/dev/null 2>&1; then res "demo with patch: PASS (bad)"; else res "demo with patch: FAIL (ok)"; fi
rm -f "$demo"
if go test -vet=off -count=1 ./... >/dev/null 2>&1; then res "suite with patch: PASS (ok)"; else res "suite with patch: FAIL (bad)"; fi
git checkout -q -- . ; git clean -qfd
mkdir -p "$dest"; cp "$out/patch.diff" "$out/demo_test.go" "$out/meta.json" "$out/confirm.log" "$dest/"
