#!/bin/bash
# usage: mkseedwt.sh <Cxx> : scratch worktree /tmp/seed-<Cxx> of /repo HEAD without the contract comment files, plus /tmp/prop-<Cxx>.txt
id=$1; d=/tmp/seed-$id
git -C /repo worktree remove --force $d 2>/dev/null
git -C /repo worktree add -q --detach $d HEAD && (cd $d && git rm -q $(git ls-files '*zz_*_verif.go') && git -c user.name=scratch -c user.email=s@x commit -qm "scratch: drop contract comment files")
python3 - "$id" <<'PY'
import json,sys
for l in open('/verif/properties.jsonl'):
    p=json.loads(l)
    if p['id']==sys.argv[1]:
        open('/tmp/prop-%s.txt'%p['id'],'w').write(json.dumps({k:p[k] for k in ('id','title','statement','quantifier','anchors')},indent=1))
PY
echo $d
