#!/usr/bin/env python3
"""Regenerates /verif/MANIFEST.json from props/*.json (claimed properties) and props/not_applicable.json."""
import json, glob, os, subprocess
root = os.path.dirname(os.path.dirname(os.path.abspath(__file__)))
props = [json.loads(l) for l in open(os.path.join(root, 'properties.jsonl'))]
na = json.load(open(os.path.join(root, 'props', 'not_applicable.json')))
claimed = {}
for f in sorted(glob.glob(os.path.join(root, 'props', 'C*.json'))):
    c = json.load(open(f))
    claimed[c['id']] = c
commits = subprocess.run(['git', '-C', '/repo', 'log', '--format=%h %s'], capture_output=True, text=True).stdout.splitlines()
hook_commits = [l.split()[0] for l in commits if 'verif hooks' in l]
checks = []
for p in props:
    c = claimed.get(p['id'])
    if not c:
        continue
    checks.append({
        "property_id": p['id'],
        "quick_cmd": "./check %s quick" % p['id'],
        "thorough_cmd": "./check %s thorough" % p['id'],
        "evidence_file": "/verif/evidence/%s.json" % p['id'],
        "replay_cmd_template": "./check replay {path}",
        "engine": "govc",
        "level_claimed": {"category": "proof", "text": c.get('level_text', ''), "design_ref": "DESIGN.md section 5 (%s)" % p['id']},
        "level_note": c.get('level_note', ''),
        "technique": "contract-based deductive verification of the real Go code: VCs generated from go/ssa of /repo, contracts in //go:build verif comment files, discharged by z3/cvc5",
    })
m = {
    "version": 1,
    "setup_cmd": "./setup.sh",
    "hooks": {"guard": "verif", "enable": "go build -tags verif ./... (contracts live in comment-only files zz_*_verif.go guarded by //go:build verif)",
              "baseline_off_cmd": "cd /repo && go test -mod=mod -vet=off -count=1 -timeout 25m ./...",
              "source_commits": hook_commits, "add_only": True},
    "engines": [{"name": "govc", "path": "/verif/engine", "serves_properties": sorted(claimed),
                 "kind_free_text": "deductive verifier for Go written for this task: weakest-precondition style VC generation over go/ssa (x/tools v0.29.0) of /repo's working tree; Gobra-style contracts (requires/ensures/invariant/modifies, ghost state, spec functions) kept in //go:build verif comment files in /repo plus assumed contracts on dependencies in /verif/contracts/extern; every obligation raced on z3 5.1.0, z3 4.8.12 and cvc5 1.0.3"}],
    "checks": checks,
    "not_applicable": [{"property_id": p['id'], "reason": na[p['id']]} for p in props if p['id'] not in claimed],
    "notes": "See DESIGN.md. Known findings: /verif/known_findings.json. Seeded changes used to test the checks: /verif/seeded/.",
}
for p in props:
    if p['id'] not in claimed and p['id'] not in na:
        raise SystemExit("property %s neither claimed nor in not_applicable.json" % p['id'])
json.dump(m, open(os.path.join(root, 'MANIFEST.json'), 'w'), indent=1)
print("claimed:", sorted(claimed), "not applicable:", [p['id'] for p in props if p['id'] not in claimed])
