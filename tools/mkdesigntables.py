#!/usr/bin/env python3
"""Regenerates the generated blocks of DESIGN.md (between <!-- BEGIN x --> / <!-- END x -->):
   STATUS : per-property status from props/*.json, props/not_applicable.json and evidence/*.json
   SEEDS  : one row per /verif/seeded/<id>: what was changed, whether/which obligation caught it
   FIXED  : the 'fixed:' entries of known_findings.json
"""
import json, glob, os, re
V = '/verif'
def block(text, name, body):
    pat = re.compile(r'(<!-- BEGIN %s -->\n).*?(<!-- END %s -->)' % (name, name), re.S)
    assert pat.search(text), name
    return pat.sub(lambda m: m.group(1) + body + m.group(2), text)
props = {json.loads(l)['id']: json.loads(l) for l in open(V + '/properties.jsonl')}
na = json.load(open(V + '/props/not_applicable.json'))
rows = ['| id | title | status | functions under contract | obligations (last run) | seeds caught |', '|---|---|---|---|---|---|']
seeds = {}
for d in sorted(glob.glob(V + '/seeded/*')):
    sid = os.path.basename(d); pid = sid.split('-')[0]
    res = open(d + '/result.txt').read().strip() if os.path.exists(d + '/result.txt') else 'not run'
    seeds.setdefault(pid, []).append((sid, res, json.load(open(d + '/meta.json'))))
for pid in sorted(props):
    title = props[pid]['title']
    if os.path.exists(V + '/props/%s.json' % pid):
        cfg = json.load(open(V + '/props/%s.json' % pid))
        ev = {}
        if os.path.exists(V + '/evidence/%s.json' % pid):
            ev = json.load(open(V + '/evidence/%s.json' % pid))
        cov = ev.get('coverage', {}); ob = cov.get('obligations', '?'); di = cov.get('discharged', '?')
        partial = 'partial' if cfg.get('not_covered') else 'claimed'
        ss = seeds.get(pid, [])
        caught = sum(1 for s in ss if 'DETECTED' in s[1])
        rows.append('| %s | %s | %s | %d (+%d lemmas) | %s / %s | %d / %d |' % (pid, title, 'claimed' + (' (partial)' if partial == 'partial' else ''), len(cfg['functions']), len(cfg.get('lemmas', [])), di, ob, caught, len(ss)))
    else:
        reason = na.get(pid, '')
        if isinstance(reason, dict): reason = reason.get('reason', '')
        rows.append('| %s | %s | %s | - | - | - |' % (pid, title, 'not claimed yet (listed under not_applicable with that reason)' if str(reason).startswith('not claimed yet') else 'not applicable'))
status = '\n'.join(rows) + '\n'
srows = ['| seed | changed function | what the change breaks | caught by |', '|---|---|---|---|']
for pid in sorted(seeds):
    for sid, res, meta in seeds[pid]:
        by = res.split('quick:', 1)[1].strip().rstrip(';') if 'DETECTED' in res else ('**MISSED**' if 'MISSED' in res else res)
        by = by.replace('|', '\\|')
        if len(by) > 160: by = by[:157] + '...'
        srows.append('| %s | `%s` | %s | %s |' % (sid, meta.get('function', '?'), meta.get('what_it_breaks', '').replace('|', '\\|')[:220], '`' + by + '`' if 'MISSED' not in by else by))
seedtab = '\n'.join(srows) + '\n'
kf = json.load(open(V + '/known_findings.json'))
frows = ['| property | fix commit | obligation that failed / failing input |', '|---|---|---|']
for f in kf['fixed']:
    m = re.match(r'fixed: property=(\S+) (\S+) (.*)', f)
    frows.append('| %s | %s | %s |' % (m.group(1), m.group(2), m.group(3).replace('|', '\\|')))
fixed = '\n'.join(frows) + '\n'
t = open(V + '/DESIGN.md').read()
t = block(t, 'STATUS', status); t = block(t, 'SEEDS', seedtab); t = block(t, 'FIXED', fixed)
open(V + '/DESIGN.md', 'w').write(t)
print('tables regenerated: %d properties, %d seeds, %d fixed' % (len(props), sum(len(v) for v in seeds.values()), len(kf['fixed'])))
