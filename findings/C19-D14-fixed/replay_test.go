package connectconformance

// Replay for known finding C19/D14 (injected with `go test -overlay`, nothing is written to /repo):
// a padded size that IS reachable (exhaustive search over the padding length finds one) is
// rejected by expandRequestData with "can't pad to exactly".

import (
	"testing"

	conformancev1 "connectrpc.com/conformance/internal/gen/proto/go/connectrpc/conformance/v1"
	"google.golang.org/protobuf/proto"
	"google.golang.org/protobuf/types/known/anypb"
)

func TestVerifReplayC19D14(t *testing.T) {
	base := proto.Size(&conformancev1.UnaryRequest{})
	for _, contribution := range []int{128, 129, 16386} {
		total := base + contribution
		// reachable? search the padding length
		reachable := -1
		for n := 0; n <= contribution; n++ {
			if proto.Size(&conformancev1.UnaryRequest{RequestData: make([]byte, n)}) == total {
				reachable = n
				break
			}
		}
		if reachable < 0 {
			t.Fatalf("witness is wrong: %d not reachable", total)
		}
		msg, err := anypb.New(&conformancev1.UnaryRequest{})
		if err != nil {
			t.Fatal(err)
		}
		rel := int32(int64(total) - serverReceiveLimit)
		tc := &conformancev1.TestCase{
			Request:        &conformancev1.ClientCompatRequest{RequestMessages: []*anypb.Any{msg}},
			ExpandRequests: []*conformancev1.TestCase_ExpandedSize{{SizeRelativeToLimit: &rel}},
		}
		err = expandRequestData(tc)
		if err != nil {
			t.Errorf("FINDING REPRODUCED: size %d is reachable with %d padding bytes but expandRequestData says: %v", total, reachable, err)
		}
	}
}
