package connectconformance

import (
	"context"
	"io"
	"testing"
	"time"
)

type verifFakeProc struct{ done func(error) }

func (p *verifFakeProc) result() error          { return nil }
func (p *verifFakeProc) abort()                 {}
func (p *verifFakeProc) whenDone(f func(error)) { p.done = f }

// When the client process exits, the runner must report it as no longer running.
// Before the fix the exit callback stored terminated=false, so isRunning() stayed true.
func TestVerifReplayD6(t *testing.T) {
	fake := &verifFakeProc{}
	inR, inW := io.Pipe()
	outR, outW := io.Pipe()
	go func() { _, _ = io.Copy(io.Discard, inR) }()
	runner, err := runClient(context.Background(), func(context.Context, bool) (*process, error) {
		return &process{processController: fake, stdin: inW, stdout: outR, stderr: nil}, nil
	})
	if err != nil {
		t.Fatal(err)
	}
	if !runner.isRunning() {
		t.Fatal("runner should be running before the process exits")
	}
	fake.done(nil) // the process exits
	_ = outW.Close()
	time.Sleep(50 * time.Millisecond)
	if runner.isRunning() {
		t.Fatal("runner still reports the client as running after the process exited")
	}
}
