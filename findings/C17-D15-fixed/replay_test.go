package internal

import (
	"bytes"
	"testing"

	conformancev1 "connectrpc.com/conformance/internal/gen/proto/go/connectrpc/conformance/v1"
)

// A raw stream item without a payload (for instance "- flags: 2" alone in a suite file) is
// an empty message. Before the fix WriteRawMessageContents dereferenced the nil
// *MessageContents and the reference server / client crashed.
func TestVerifReplayD15(t *testing.T) {
	var buf bytes.Buffer
	err := WriteRawStreamContents(&conformancev1.StreamContents{
		Items: []*conformancev1.StreamContents_StreamItem{{Flags: 2}},
	}, &buf)
	if err != nil {
		t.Fatal(err)
	}
	if want := []byte{2, 0, 0, 0, 0}; !bytes.Equal(buf.Bytes(), want) {
		t.Fatalf("got % x want % x", buf.Bytes(), want)
	}
}
