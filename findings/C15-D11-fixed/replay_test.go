package tracer

import (
	"bytes"
	"testing"

	"golang.org/x/net/http2"
	"golang.org/x/net/http2/hpack"
)

// A stream without the x-test-case-name header is not traced (its builder is inactive), so
// its trace never gets a response. Response trailers on such a stream made the tracer write
// to trace.Response.Trailer of a nil response: a nil-pointer panic inside Write of the
// wrapped server connection. (Uses verifFakeConn / verifNopCollector of the D16 replay.)
func TestVerifReplayD11(t *testing.T) {
	var fromClient bytes.Buffer
	fromClient.WriteString(http2.ClientPreface)
	var hbuf bytes.Buffer
	enc := hpack.NewEncoder(&hbuf)
	for _, f := range []hpack.HeaderField{{Name: ":method", Value: "POST"}, {Name: ":path", Value: "/x"}, {Name: ":scheme", Value: "http"}, {Name: ":authority", Value: "h"}} {
		_ = enc.WriteField(f)
	}
	cf := http2.NewFramer(&fromClient, nil)
	if err := cf.WriteHeaders(http2.HeadersFrameParam{StreamID: 1, BlockFragment: hbuf.Bytes(), EndHeaders: true, EndStream: true}); err != nil {
		t.Fatal(err)
	}
	conn := TracingHTTP2Conn(&verifFakeConn{in: &fromClient}, true, verifNopCollector{})
	buf := make([]byte, 4096)
	for fromClient.Len() > 0 { // read what the client sent, without running into the end of the fake stream
		if _, err := conn.Read(buf); err != nil {
			t.Fatal(err)
		}
	}
	// the server answers: response headers, then trailers that end the stream
	var out bytes.Buffer
	sf := http2.NewFramer(&out, nil)
	var rbuf bytes.Buffer
	renc := hpack.NewEncoder(&rbuf)
	_ = renc.WriteField(hpack.HeaderField{Name: ":status", Value: "200"})
	if err := sf.WriteHeaders(http2.HeadersFrameParam{StreamID: 1, BlockFragment: rbuf.Bytes(), EndHeaders: true}); err != nil {
		t.Fatal(err)
	}
	var tbuf bytes.Buffer
	tenc := hpack.NewEncoder(&tbuf)
	_ = tenc.WriteField(hpack.HeaderField{Name: "grpc-status", Value: "0"})
	if err := sf.WriteHeaders(http2.HeadersFrameParam{StreamID: 1, BlockFragment: tbuf.Bytes(), EndHeaders: true, EndStream: true}); err != nil {
		t.Fatal(err)
	}
	defer func() {
		if r := recover(); r != nil {
			t.Fatalf("tracing connection crashed on an untraced stream with trailers: %v", r)
		}
	}()
	if _, err := conn.Write(out.Bytes()); err != nil {
		t.Fatal(err)
	}
}
