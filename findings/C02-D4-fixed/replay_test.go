package connectconformance

import (
	"testing"

	conformancev1 "connectrpc.com/conformance/internal/gen/proto/go/connectrpc/conformance/v1"
	"google.golang.org/protobuf/types/known/anypb"
)

// A full-duplex bidi test case with one request message that asks for two responses is a
// well-formed definition (the reference server sends the second response without request
// info once the client has finished). Deriving its expected response indexed
// RequestMessages[1] and crashed the runner while loading the suite.
func TestVerifReplayD4(t *testing.T) {
	req, err := anypb.New(&conformancev1.BidiStreamRequest{
		FullDuplex: true,
		ResponseDefinition: &conformancev1.StreamResponseDefinition{
			ResponseData: [][]byte{[]byte("a"), []byte("b")},
		},
	})
	if err != nil {
		t.Fatal(err)
	}
	tc := &conformancev1.TestCase{Request: &conformancev1.ClientCompatRequest{
		TestName:        "t",
		StreamType:      conformancev1.StreamType_STREAM_TYPE_FULL_DUPLEX_BIDI_STREAM,
		RequestMessages: []*anypb.Any{req},
	}}
	defer func() {
		if r := recover(); r != nil {
			t.Fatalf("deriving the expected response crashed: %v", r)
		}
	}()
	if err := populateExpectedResponse(tc); err != nil {
		t.Fatal(err)
	}
	if got := len(tc.ExpectedResponse.Payloads); got != 2 {
		t.Fatalf("expected 2 payloads, got %d", got)
	}
	if tc.ExpectedResponse.Payloads[1].RequestInfo != nil {
		t.Fatalf("second payload should carry no request info (there is no second request)")
	}
}
