package tracer

import (
	"bytes"
	"net"
	"testing"
	"time"

	"golang.org/x/net/http2"
	"golang.org/x/net/http2/hpack"
)

type verifFakeConn struct {
	net.Conn
	in *bytes.Buffer
}

func (c *verifFakeConn) Read(p []byte) (int, error)       { return c.in.Read(p) }
func (c *verifFakeConn) Write(p []byte) (int, error)      { return len(p), nil }
func (c *verifFakeConn) Close() error                     { return nil }
func (c *verifFakeConn) SetDeadline(time.Time) error      { return nil }
func (c *verifFakeConn) SetReadDeadline(time.Time) error  { return nil }
func (c *verifFakeConn) SetWriteDeadline(time.Time) error { return nil }

type verifNopCollector struct{}

func (verifNopCollector) Complete(Trace) {}

// Malformed but possible traffic on a client connection: the peer sends a DATA frame on a
// stream before any response HEADERS, then GOAWAY below that stream id. Before the fix the
// tracer flushed the response tracer of a stream that has no builder yet and crashed with a
// nil pointer dereference inside Read; wrapping a connection must never change or crash it.
func TestVerifReplayD16(t *testing.T) {
	var fromPeer bytes.Buffer
	fr := http2.NewFramer(&fromPeer, nil)
	if err := fr.WriteData(1, false, []byte("abc")); err != nil {
		t.Fatal(err)
	}
	if err := fr.WriteGoAway(0, http2.ErrCodeNo, nil); err != nil {
		t.Fatal(err)
	}
	conn := TracingHTTP2Conn(&verifFakeConn{in: &fromPeer}, false, verifNopCollector{})

	// the client's own bytes: preface + request HEADERS on stream 1
	var out bytes.Buffer
	out.WriteString(http2.ClientPreface)
	var hbuf bytes.Buffer
	enc := hpack.NewEncoder(&hbuf)
	for _, f := range []hpack.HeaderField{{Name: ":method", Value: "POST"}, {Name: ":path", Value: "/x"}, {Name: ":scheme", Value: "http"}, {Name: ":authority", Value: "h"}, {Name: "x-test-case-name", Value: "t"}} {
		_ = enc.WriteField(f)
	}
	cf := http2.NewFramer(&out, nil)
	if err := cf.WriteHeaders(http2.HeadersFrameParam{StreamID: 1, BlockFragment: hbuf.Bytes(), EndHeaders: true}); err != nil {
		t.Fatal(err)
	}
	if _, err := conn.Write(out.Bytes()); err != nil {
		t.Fatal(err)
	}
	buf := make([]byte, 4096)
	defer func() {
		if r := recover(); r != nil {
			t.Fatalf("tracing connection crashed on malformed peer traffic: %v", r)
		}
	}()
	for {
		if _, err := conn.Read(buf); err != nil {
			break
		}
	}
}
